"""Soundness sweep: every sim profile is run with *all* oracle clauses armed, whatever property they belong to.
Anything other than the recorded open findings is a latent false alarm (or a genuine defect) and is printed with a replay.

usage: /venv/bin/python tools_crossquiet.py [cases per strategy] [seed]
"""
import collections
import json
import multiprocessing as mp
import os
import sys

sys.path.insert(0, os.path.dirname(os.path.abspath(__file__)))
from vt.common import setup_path  # noqa: E402

setup_path()
KNOWN = {"pool_size/getter-occupied", "pool_size/admitted-beyond-assigned-limit", "pool_size/waiters-not-started-although-room"}
PIDS = ["C01", "C02", "C03", "C04", "C05", "C06", "C07", "C08", "C09", "C10", "C11", "C12", "C13", "C14", "C15"]


def work(args):
    pid, n, sd = args
    import importlib
    from hypothesis import HealthCheck, Phase, given, seed, settings
    eng = importlib.import_module("vt.props." + pid.lower()).ENGINE
    found = {}
    cnt = collections.Counter()
    for si, (name, strat, _) in enumerate(eng.strategies("quick")):
        @seed(sd * 1000 + si)
        @settings(max_examples=n, database=None, deadline=None, phases=[Phase.generate], suppress_health_check=list(HealthCheck))
        @given(strat)
        def t(prog):
            out = eng.run_case(prog)
            cnt["cases"] += 1
            if out.get("error"):
                cnt["harness-error"] += 1
                found.setdefault("harness-error", (prog, out["error"][-300:]))
            for v in out["violations"]:
                if v["clause"] in KNOWN:
                    continue
                cnt[v["clause"]] += 1
                found.setdefault(v["clause"], (prog, v))
        t()
    return pid, dict(cnt), found


def main():
    n = int(sys.argv[1]) if len(sys.argv) > 1 else 1500
    sd = int(sys.argv[2]) if len(sys.argv) > 2 else 1
    os.makedirs("/tmp/w/cross", exist_ok=True)
    with mp.get_context("fork").Pool(8) as pool:
        for pid, cnt, found in pool.imap_unordered(work, [(p, n, sd) for p in PIDS]):
            print(pid, cnt, flush=True)
            for clause, (prog, v) in found.items():
                f = f"/tmp/w/cross/{pid}-{clause.replace('/', '_')}.json"
                json.dump(prog, open(f, "w"))
                print("   ", clause, "->", f, str(v)[:200], flush=True)


if __name__ == "__main__":
    main()
