"""Shared plumbing: locating the tree under test, hashing, environment."""
from __future__ import annotations

import hashlib
import json
import os
import sys

VERIF = os.path.dirname(os.path.dirname(os.path.abspath(__file__)))
REPO = os.environ.get("VERIF_REPO", "/repo")
SRC = os.path.join(REPO, "src")


def setup_path() -> None:
    """Make `asyncio_taskpool` import from the working tree under test and third-party deps from .deps."""
    deps = os.path.join(VERIF, ".deps")
    if os.path.isdir(deps) and deps not in sys.path:
        sys.path.append(deps)
    if sys.path[0] != SRC:
        if SRC in sys.path:
            sys.path.remove(SRC)
        sys.path.insert(0, SRC)
    sys.dont_write_bytecode = True


def canon(obj) -> str:
    return json.dumps(obj, sort_keys=True, separators=(",", ":"), default=str)


def h8(obj) -> str:
    return hashlib.sha1(canon(obj).encode()).hexdigest()[:12]


def seed_value() -> int:
    try:
        return int(os.environ.get("VERIF_SEED", "1"))
    except ValueError:
        return 1


class HarnessError(Exception):
    """Infrastructure trouble: exit 2, never a VIOLATION."""


class CaseTimeout(BaseException):
    """Raised by the per-case watchdog (SIGALRM); must never be swallowed by harness code."""
