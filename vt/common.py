"""Shared plumbing: locating the tree under test, hashing, environment."""
from __future__ import annotations

import hashlib
import json
import os
import sys

VERIF = os.path.dirname(os.path.dirname(os.path.abspath(__file__)))
REPO = os.environ.get("VERIF_REPO", "/repo")
SRC = os.path.join(REPO, "src")


def setup_path() -> None:
    """Make `asyncio_taskpool` import from the working tree under test and third-party deps from .deps."""
    deps = os.path.join(VERIF, ".deps")
    if os.path.isdir(deps) and deps not in sys.path:
        sys.path.append(deps)
    if sys.path[0] != SRC:
        if SRC in sys.path:
            sys.path.remove(SRC)
        sys.path.insert(0, SRC)
    sys.dont_write_bytecode = True


def canon(obj) -> str:
    return json.dumps(obj, sort_keys=True, separators=(",", ":"), default=str)


def h8(obj) -> str:
    return hashlib.sha1(canon(obj).encode()).hexdigest()[:12]


def seed_value() -> int:
    try:
        return int(os.environ.get("VERIF_SEED", "1"))
    except ValueError:
        return 1


class HarnessError(Exception):
    """Infrastructure trouble: exit 2, never a VIOLATION."""


class CaseTimeout(BaseException):
    """Raised by the per-case watchdog (SIGALRM); must never be swallowed by harness code."""



def deterministic_tasks(loop, salt: int = 0):
    """Makes the iteration order of *sets of tasks* a function of the program instead of memory addresses.

    asyncio.Task hashes by identity, i.e. by address; the library keeps meta tasks in sets and iterates them when it cancels or
    gathers, so the order of those cancellations differed from run to run of the very same program (and between a program and its
    twin). Tasks created on this loop are instances of a Task subclass whose hash is their creation number mixed with `salt`
    (derived from the program): every run of a program sees the same order, different programs see different orders."""
    import asyncio
    import itertools

    counter = itertools.count(1)

    class SeqTask(asyncio.Task):  # type: ignore[type-arg]
        def __init__(self, *a, **k):
            self._vt_seq = next(counter)
            super().__init__(*a, **k)

        def __hash__(self) -> int:
            return ((self._vt_seq * 2654435761) ^ salt) & 0x7FFFFFFF

        def __eq__(self, other) -> bool:
            return self is other

    def factory(lp, coro, **kw):
        return SeqTask(coro, loop=lp, **kw)

    loop.set_task_factory(factory)
    return SeqTask
