"""In-process control-session harness: a real ControlSession on a real StreamReader with a recording writer."""
from __future__ import annotations

import asyncio
import contextlib
import io
import json
import logging
import sys
from typing import Any, Dict, List, Optional

from ..common import CaseTimeout
from ..sim.world import debug_logging, quiet_logging

TICK_CAP = 3000


class RecWriter:
    def __init__(self) -> None:
        self.writes: List[bytes] = []
        self.drains = 0
        self.closed = False

    def write(self, data: bytes) -> None:
        self.writes.append(bytes(data))

    async def drain(self) -> None:
        self.drains += 1

    def close(self) -> None:
        self.closed = True

    def is_closing(self) -> bool:
        return self.closed

    async def wait_closed(self) -> None:
        return None

    def get_extra_info(self, *a: Any, **k: Any) -> Any:
        return None


class StubServer:
    def __init__(self, pool: Any) -> None:
        self.pool = pool
        self.client_class_name = "HarnessClient"
        self.serving = True

    def is_serving(self) -> bool:
        return self.serving


class Sess:
    """One session: feed lines, collect what was written in response."""

    def __init__(self, pool: Any, width: Any = 80, extra: Optional[dict] = None) -> None:
        from asyncio_taskpool.control.session import ControlSession
        self.pool = pool
        self.reader = asyncio.StreamReader()
        self.writer = RecWriter()
        self.server = StubServer(pool)
        self.session = ControlSession(self.server, self.reader, self.writer)  # type: ignore[arg-type]
        self.width = width
        self.extra = extra or {}
        self.task: Optional[asyncio.Task] = None
        self.handshake_reply: Optional[bytes] = None
        self.handshake_error: Optional[BaseException] = None
        self.escaped: Optional[BaseException] = None
        self.seen = 0

    async def _run(self) -> None:
        try:
            await self.session.client_handshake()
        except CaseTimeout:
            raise
        except BaseException as e:  # noqa
            self.handshake_error = e
            if isinstance(e, asyncio.CancelledError):
                raise
            return
        try:
            await self.session.listen()
        except asyncio.CancelledError:
            raise
        except CaseTimeout:
            raise
        except BaseException as e:  # SystemExit included: it must never escape, and must not end the process
            self.escaped = e

    async def start(self) -> None:
        info = dict({"terminal_width": self.width}, **self.extra)
        self.reader.feed_data(json.dumps(info).encode() + b"\n")
        self.task = asyncio.ensure_future(self._run())
        await settle()
        if self.writer.writes:
            self.handshake_reply = b"".join(self.writer.writes)
        self.seen = len(self.writer.writes)

    def feed(self, line: str) -> None:
        self.reader.feed_data(line.encode() + b"\n")

    def new_writes(self) -> List[bytes]:
        out = self.writer.writes[self.seen:]
        self.seen = len(self.writer.writes)
        return out

    def alive(self) -> bool:
        return self.task is not None and not self.task.done()

    async def command(self, line: str) -> List[bytes]:
        self.feed(line)
        await settle()
        return self.new_writes()

    def stop(self) -> None:
        self.reader.feed_eof()


def is_idle() -> bool:
    loop = asyncio.get_event_loop()
    return not loop._ready and not loop._scheduled  # type: ignore[attr-defined]


async def settle() -> bool:
    for _ in range(TICK_CAP):
        await asyncio.sleep(0)
        if is_idle():
            return True
    return False


def run_in_fresh_loop(coro_fn: Any, debug_log: bool = False) -> Any:
    """Runs `await coro_fn()` in a fresh loop with stdout/stderr captured; returns (result, stdout, stderr, error)."""
    quiet_logging()
    import warnings
    # a warning the library issues is printed on the server's stderr by default: it must be seen (C18); RuntimeWarnings about
    # never-awaited coroutines of the harness's own tear-down stay ignored
    warnings.filterwarnings("always", category=UserWarning)
    warnings.filterwarnings("always", category=DeprecationWarning, module=r"asyncio_taskpool")
    for name in ("asyncio_taskpool.control.parser", "asyncio_taskpool.control.session", "asyncio_taskpool.control.server", "asyncio_taskpool.pool"):
        lg = logging.getLogger(name)
        lg.handlers[:] = []
        lg.propagate = True
    if debug_log:
        debug_logging(report=True)       # the deployment has the library's logger at DEBUG: every log call is evaluated and formatted
    from asyncio_taskpool.pool import BaseTaskPool
    BaseTaskPool._pools.clear()
    loop = asyncio.new_event_loop()
    loop.set_exception_handler(lambda l, c: None)
    from ..common import deterministic_tasks
    deterministic_tasks(loop, 0)       # sets of tasks iterate in creation order mixed with a constant, not in address order
    out, err = io.StringIO(), io.StringIO()
    result, error = None, None
    old_out, old_err = sys.stdout, sys.stderr
    sys.stdout, sys.stderr = out, err
    try:
        asyncio.set_event_loop(loop)
        try:
            result = loop.run_until_complete(coro_fn())
        except SystemExit as e:
            error = f"SystemExit({e.code}) escaped"
        except Exception as e:
            import traceback
            lib = [f for f in traceback.extract_tb(e.__traceback__) if "/asyncio_taskpool/" in f.filename]
            text = "".join(traceback.format_exception(type(e), e, e.__traceback__))[-3000:]
            error = ("LIB:" + f"{type(e).__name__}@{lib[-1].name}: {e}"[:200]) if lib else text
    finally:
        try:
            for _ in range(30):
                pend = [t for t in asyncio.all_tasks(loop) if not t.done()]
                if not pend:
                    break
                for t in pend:
                    t.cancel()
                try:
                    loop.run_until_complete(asyncio.wait(pend, timeout=0))
                except CaseTimeout:
                    raise
                except BaseException:
                    pass
            for t in asyncio.all_tasks(loop):
                if t.done() and not t.cancelled():
                    t.exception()
        finally:
            sys.stdout, sys.stderr = old_out, old_err
            asyncio.set_event_loop(None)
            loop.close()
    return result, out.getvalue(), err.getvalue(), error
