from .. import hmod


def done(task_id: int) -> None:
    hmod.cbs.append(("pkg-done", task_id))
