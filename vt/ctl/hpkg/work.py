from typing import Any

from .. import hmod


async def work(*a: Any, **k: Any) -> str:
    hmod._rec("pkg-work", a, k)
    return "w"
