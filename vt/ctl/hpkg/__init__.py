"""A package that re-exports functions from sub-modules of the same name (`from .work import work`): the attribute `work` of the
package is the function; the sub-module is shadowed. Dotted paths into it mean the function."""
from .done import done
from .work import work

__all__ = ["done", "work"]
