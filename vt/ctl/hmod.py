"""Module of workers/callbacks reachable through dotted paths in control commands (vt.ctl.hmod.<name>)."""
from __future__ import annotations

import asyncio
from typing import Any, Dict, List

calls: List[tuple] = []
cbs: List[tuple] = []
gates: List[asyncio.Future] = []


def reset() -> None:
    global alt, altcb
    calls.clear()
    cbs.clear()
    gates.clear()
    alt = quick
    altcb = ecb


def rebind(which: int) -> None:
    """The object behind vt.ctl.hmod.alt / altcb changes (as after a module reload)."""
    global alt, altcb
    alt = [quick, gated, boom, quick2][which % 4]
    altcb = [ecb, accb][which % 2]


def _rec(name: str, a: tuple, k: dict) -> None:
    calls.append((name, repr(a), repr(sorted(k.items()))))


async def quick(*a: Any, **k: Any) -> str:
    _rec("quick", a, k)
    await asyncio.sleep(0)
    return "q"


async def quick2(*a: Any, **k: Any) -> str:
    _rec("quick2", a, k)
    return "q2"


async def gated(*a: Any, **k: Any) -> str:
    _rec("gated", a, k)
    fut = asyncio.get_event_loop().create_future()
    gates.append(fut)
    try:
        await fut
    except asyncio.CancelledError as e:
        calls.append(("gated-cancelled", repr(e.args), ""))       # the message given to cancel()/cancel_group()/cancel_all() arrives here
        raise
    finally:
        if fut in gates:
            gates.remove(fut)
    return "g"


async def _inner(*a: Any, **k: Any) -> str:
    _rec("inner-of-decorated", a, k)
    return "i"


def _decorate(fn: Any) -> Any:
    import functools

    @functools.wraps(fn)
    async def wrapper(*a: Any, **k: Any) -> str:
        _rec("decorated", a, k)         # what the decorator adds: observable, so that running the bare function shows
        return await fn(*a, **k)
    return wrapper


# a decorated worker (functools.wraps sets __wrapped__): the object behind the dotted path is the wrapper
decorated = _decorate(_inner)


def _decorate_cb(fn: Any) -> Any:
    import functools

    @functools.wraps(fn)
    def wrapper(task_id: int) -> None:
        cbs.append(("decorated", task_id))
        fn(task_id)
    return wrapper


async def boom(*a: Any, **k: Any) -> None:
    _rec("boom", a, k)
    raise RuntimeError("boom")


async def boom_key(*a: Any, **k: Any) -> None:
    _rec("boom_key", a, k)
    raise KeyError("no such key")          # str(KeyError('x')) is "'x'", not 'x'


async def boom_os(*a: Any, **k: Any) -> None:
    _rec("boom_os", a, k)
    raise OSError(2, "No such file", "thing.txt")      # several arguments, a __str__ of its own


def ecb(task_id: int) -> None:
    cbs.append(("e", task_id))


async def accb(task_id: int) -> None:
    cbs.append(("c", task_id))


def not_async(*a: Any, **k: Any) -> None:
    _rec("not_async", a, k)


def open_gate(k: int) -> bool:
    live = [g for g in gates if not g.done()]
    if not live:
        return False
    live[k % len(live)].set_result(None)
    return True


def open_all() -> None:
    for g in list(gates):
        if not g.done():
            g.set_result(None)


alt = quick
altcb = ecb


deco_cb = _decorate_cb(ecb)
