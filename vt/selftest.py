"""Sensitivity self-test against seeded changes (DESIGN section 7)."""
import json
import os
import shutil
import subprocess
import sys
import tempfile

VERIF = os.path.dirname(os.path.dirname(os.path.abspath(__file__)))


def sh(cmd, **kw):
    return subprocess.run(cmd, shell=True, capture_output=True, text=True, **kw)


def main() -> int:
    seed_dir = os.path.abspath(sys.argv[1])
    name = os.path.basename(seed_dir.rstrip("/"))
    mf = os.path.join(seed_dir, "agent_meta.json")
    meta = json.load(open(mf if os.path.exists(mf) else os.path.join(seed_dir, "meta.json")))
    checks = sys.argv[2:] or [meta["property"]]
    tier = os.environ.get("SELFTEST_TIER", "quick")
    scratch = tempfile.mkdtemp(prefix=f"st-{name}-", dir="/tmp")
    out = {"seed": name, "property": meta["property"]}
    try:
        repo = os.path.join(scratch, "repo")
        shutil.copytree("/repo", repo, ignore=shutil.ignore_patterns(".git", "__pycache__", "*.pyc", ".pytest_cache"))
        r = sh(f"patch -p1 --no-backup-if-mismatch < {seed_dir}/patch.diff", cwd=repo)
        out["patch_applies"] = r.returncode == 0
        if r.returncode != 0:
            out["patch_output"] = (r.stdout + r.stderr)[-400:]
            print(json.dumps(out))
            return 3
        env = dict(os.environ, PYTHONPATH=os.path.join(repo, "src"), PYTHONDONTWRITEBYTECODE="1")
        if not os.environ.get("SELFTEST_SKIP_SUITE"):
            r = sh("timeout 600 /venv/bin/python -m pytest -q -p no:cacheprovider -x 2>&1 | tail -1", cwd=repo, env=env)
            out["suite"] = r.stdout.strip()
        demo = os.path.join(seed_dir, "demo.py")
        if os.path.exists(demo):
            r1 = sh(f"timeout 60 /venv/bin/python {demo} {repo}/src", env=env)
            r0 = sh(f"timeout 60 /venv/bin/python {demo} /repo/src")
            out["demo_with"], out["demo_without"] = r1.returncode, r0.returncode
        outdir = os.path.join(scratch, "out")
        os.makedirs(outdir)
        res = {}
        for pid in checks:
            env2 = dict(os.environ, VERIF_REPO=repo, VERIF_OUT=outdir)
            env2.pop("PYTHONPATH", None)
            r = sh(f"timeout 3000 {VERIF}/check {pid} --tier {tier}", cwd=VERIF, env=env2)
            sigs = [l.strip() for l in r.stdout.splitlines() if l.strip().startswith("signature=")]
            res[pid] = {"rc": r.returncode, "signatures": [s[:160] for s in sigs][:6]}
            if r.returncode == 2:
                res[pid]["stderr"] = r.stderr[-600:]
        out["checks"] = res
        out["caught_by"] = [p for p, v in res.items() if v["rc"] == 1]
        print(json.dumps(out))
        return 0
    finally:
        shutil.rmtree(scratch, ignore_errors=True)


if __name__ == "__main__":
    sys.exit(main())
