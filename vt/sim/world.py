"""The world the pools run in: real event loop, harness-owned workers/callbacks/iterators, observation points."""
from __future__ import annotations

import asyncio
import inspect
import logging
import re
import warnings
from typing import Any, Callable, Dict, List, Optional

from .model import CallRec, Fatal, Injected, PoolM, ReqM, TaskM

TICK_CAP = 3000


class Inconclusive(Exception):
    pass


class Violation:
    __slots__ = ("props", "clause", "detail", "opno")

    def __init__(self, props, clause: str, detail: str, opno: int) -> None:
        self.props, self.clause, self.detail, self.opno = tuple(sorted(props)), clause, detail, opno

    def sig(self) -> str:
        return self.clause

    def as_dict(self) -> dict:
        return {"props": list(self.props), "clause": self.clause, "detail": self.detail, "opno": self.opno}


class CallableObject:
    """A plain (sync) callback that is neither a function nor hashable (like a dataclass instance with __call__)."""

    __hash__ = None  # type: ignore[assignment]

    def __init__(self, fn: Any) -> None:
        self.fn = fn

    def __eq__(self, other: Any) -> bool:
        return self is other

    def __call__(self, task_id: Any) -> Any:
        return self.fn(task_id)


class FalsyCallable(list):
    """A callable that is falsy (an empty list subclass with __call__, e.g. a hook registry)."""

    def __init__(self, fn: Any) -> None:
        super().__init__()
        self.fn = fn

    def __call__(self, task_id: Any) -> Any:
        return self.fn(task_id)


class AnyEq:
    """An element that compares equal to everything (like unittest.mock.ANY)."""

    def __init__(self, tag: str) -> None:
        self.tag = tag

    def __eq__(self, other: Any) -> bool:
        return True

    def __ne__(self, other: Any) -> bool:
        return False

    __hash__ = None  # type: ignore[assignment]

    def __repr__(self) -> str:
        return f"<AnyEq {self.tag}>"


class StrMapping:
    """A mapping that is no dict (func(**x) must work for any mapping with string keys)."""

    def __init__(self, d: dict) -> None:
        self._d = d

    def keys(self) -> Any:
        return self._d.keys()

    def __getitem__(self, k: str) -> Any:
        return self._d[k]

    def __iter__(self) -> Any:
        return iter(self._d)

    def __len__(self) -> int:
        return len(self._d)


class Sentinel:
    """Identity-checked argument object."""

    __slots__ = ("tag",)

    def __init__(self, tag: str) -> None:
        self.tag = tag

    def __repr__(self) -> str:
        return f"<S {self.tag}>"


class World:
    def __init__(self, program: dict, lib: Any) -> None:
        self.program = program
        self.lib = lib                      # module namespace: TaskPool, SimpleTaskPool, exceptions
        self.loop: asyncio.AbstractEventLoop = None  # type: ignore
        self.pools: List[PoolM] = []
        self.viol: List[Violation] = []
        self.viol_seen: Dict[str, int] = {}
        self.faults: List[BaseException] = []
        self.labels: set = set()
        self.opno = 0
        self.teardown = False
        self.waiters: List[list] = []       # [future, tag, owner]
        self.seq = 0                        # global sequence counter for ordering events
        self.trace: List[str] = []
        self.trace_on = False
        self.inconclusive: Optional[str] = None
        self.actors: List[Any] = []
        self.rid = 0
        self.checks: List[Callable[[str], None]] = []       # invariants run at every OP
        self.idle_checks: List[Callable[[], None]] = []
        self.in_user = 0                    # depth of harness user code currently executing inside the pool
        self.exec_embedded: Callable[[dict, dict], None] = lambda op, ctx: None
        self.flush_inline: Any = None
        self.name_re: Dict[str, PoolM] = {}
        self.observing = False
        self.probing = False
        self.stats: Dict[str, int] = {}

    # ------------------------------------------------------------------ utilities
    def fail(self, props, clause: str, detail: str = "") -> None:
        if self.teardown:
            return
        if clause in self.viol_seen:
            self.viol_seen[clause] += 1
            return
        self.viol_seen[clause] = 1
        self.viol.append(Violation(props, clause, detail, self.opno))
        if self.trace_on:
            self.trace.append(f"!! {clause} {detail}")

    def label(self, name: str) -> None:
        self.labels.add(name)

    def count(self, name: str, n: int = 1) -> None:
        self.stats[name] = self.stats.get(name, 0) + n

    def ev(self, text: str) -> None:
        if self.trace_on:
            self.trace.append(f"{self.opno}: {text}")

    def nseq(self) -> int:
        self.seq += 1
        return self.seq

    # ------------------------------------------------------------------ injected faults
    FAULT_TYPES = (Injected, TypeError, ValueError, KeyError, RuntimeError)

    def new_fault(self, tag: str, kind: int = 0, allow_base: bool = False, at_call: bool = False) -> BaseException:
        """An exception object the harness injects; its type varies (user code fails with all sorts of exceptions)."""
        if at_call:
            types = (Injected, TypeError, Fatal, ValueError, StopIteration, KeyError, RuntimeError, Fatal, StopAsyncIteration, LookupError, MemoryError, RecursionError)
        else:
            types = self.FAULT_TYPES + ((Fatal,) if allow_base else ())
        cls = types[kind % len(types)]
        # the arguments of an exception are anything: a string, a number and a string (like OSError), nothing at all
        exc = cls(tag) if (kind // len(types)) % 3 == 0 or cls is Fatal else cls(7, tag) if (kind // len(types)) % 3 == 1 else cls()
        self.faults.append(exc)
        return exc

    def is_fault(self, exc: BaseException) -> bool:
        return any(exc is f for f in self.faults)

    # ------------------------------------------------------------------ waiting on gates
    async def wait(self, tag: str, owner: Any = None) -> None:
        fut = self.loop.create_future()
        ent = [fut, tag, owner]
        self.waiters.append(ent)
        try:
            await fut
        finally:
            if ent in self.waiters:
                self.waiters.remove(ent)

    def release(self, k: int) -> bool:
        live = [w for w in self.waiters if not w[0].done()]
        if not live:
            return False
        ent = live[k % len(live)]
        ent[0].set_result(None)
        self.waiters.remove(ent)
        return True

    def release_all(self) -> int:
        n = 0
        for ent in list(self.waiters):
            if not ent[0].done():
                ent[0].set_result(None)
                n += 1
        self.waiters.clear()
        return n

    # ------------------------------------------------------------------ loop stepping
    def is_idle(self) -> bool:
        loop = self.loop
        return not loop._ready and not loop._scheduled  # type: ignore[attr-defined]

    async def tick(self, k: int = 1) -> None:
        for _ in range(k):
            await asyncio.sleep(0)
            self.observe("tick")

    async def settle(self) -> bool:
        for _ in range(TICK_CAP):
            await asyncio.sleep(0)
            self.observe("tick")
            if self.is_idle():
                self.observe_idle()
                return True
        self.inconclusive = "tick cap reached"
        raise Inconclusive("tick cap")

    # ------------------------------------------------------------------ observation points
    def observe(self, where: str) -> None:
        if self.teardown or self.observing or self.probing:
            return
        self.observing = True
        try:
            self.opno += 1
            for chk in self.checks:
                chk(where)
        finally:
            self.observing = False

    def observe_idle(self) -> None:
        if self.teardown:
            return
        for chk in self.idle_checks:
            chk()

    # ------------------------------------------------------------------ task identification
    def pool_of_name(self, name: str):
        """'<pool>_Task-<id>' -> (PoolM, id) or None."""
        i = name.rfind("_Task-")
        if i < 0:
            return None
        pm = self.name_re.get(name[:i])
        if pm is None:
            return None
        try:
            return pm, int(name[i + 6:])
        except ValueError:
            return None

    def get_task(self, pm: PoolM, tid: int) -> TaskM:
        tm = pm.tasks.get(tid)
        if tm is None:
            tm = pm.tasks[tid] = TaskM(pm, tid, self.opno)
            self.ev(f"discover {pm.name}#{tid}")
        return tm

    # ------------------------------------------------------------------ worker functions
    def make_worker(self, rm_or_resolver: Any, wspec: dict, plain: bool = False):
        """Returns a coroutine function for a request (or a resolver `() -> ReqM` for SimpleTaskPool) following `wspec`."""
        world = self
        callfault = set(wspec.get("callfault", ()))
        fname = wspec.get("fname", "w")

        def resolve() -> Optional[ReqM]:
            return rm_or_resolver if isinstance(rm_or_resolver, ReqM) else rm_or_resolver()

        def on_call(args: tuple, kwargs: dict) -> Optional[CallRec]:
            rm = resolve()
            if rm is None:
                return None
            idx = len(rm.calls)
            raised = idx in callfault and not rm.spec.get("probe")
            rec = CallRec(rm, idx, args, kwargs, raised, world.opno)
            try:
                rec.spawner = asyncio.current_task()
            except RuntimeError:
                rec.spawner = None
            rm.calls.append(rec)
            world.ev(f"call r{rm.rid}[{idx}] raised={raised}")
            rm.in_call = True
            try:
                world.in_user += 1
                world.observe("call")
                op = wspec.get("call_op")
                if op is not None and idx == wspec.get("call_op_at", 0):
                    world.exec_embedded(op, {"where": "call", "req": rm})
            finally:
                world.in_user -= 1
                rm.in_call = False
            if raised:
                # a plain call may fail with anything, StopIteration included (inside a coroutine Python would turn that into RuntimeError)
                exc = world.new_fault(f"call r{rm.rid}[{idx}]", wspec.get("fault_kind", 0) + idx, at_call=True)
                if not isinstance(exc, Exception):
                    # no Exception: the spawner does not skip it, it dies of it - the request ends there, flush()/gather_and_close() raise it
                    rm.call_fatal = idx  # type: ignore[attr-defined]
                    rm.pm.injected.append(exc)
                    rm.pm.fault_seen = True
                    world.label("fault:call-raises-BaseException")
                raise exc
            return rec

        if plain:
            async def w_plain(*args: Any, **kwargs: Any) -> Any:
                # the call is only observable once the coroutine starts
                rm = resolve()
                rec = CallRec(rm, len(rm.calls), args, kwargs, False, world.opno)
                rm.calls.append(rec)
                return await world.body(rec, wspec)
            w_plain.__name__ = fname
            w_plain.__qualname__ = fname
            return w_plain

        def w(*args: Any, **kwargs: Any) -> Any:
            rec = on_call(args, kwargs)
            if rec is None:
                return world.orphan_body()
            if wspec.get("bad_return_at") == rec.idx and not rec.req.spec.get("probe"):
                # flagged as a coroutine function, returns an awaitable that is no coroutine
                rec.req.bad_return = rec.idx  # type: ignore[attr-defined]
                rec.req.pm.fault_seen = True
                rec.raised = True             # no task can come out of this call
                fut = world.loop.create_future()
                fut.set_result(None)
                return fut
            return world.body(rec, wspec)

        w.__name__ = fname
        w.__qualname__ = ("Outer.<locals>." + fname) if wspec.get("nested_qualname") else fname
        inspect.markcoroutinefunction(w)
        if wspec.get("partial"):
            import functools
            return functools.partial(w)      # a coroutine function without a __name__ of its own
        return w

    async def orphan_body(self) -> Any:
        self.fail({"C04"}, "call/outside-any-request", "worker function called by a task that is no known spawner")

    async def body(self, rec: CallRec, wspec: dict) -> Any:
        rm = rec.req
        at = asyncio.current_task()
        ident = self.pool_of_name(at.get_name()) if at is not None else None
        if ident is None:
            self.fail({"C11"}, "name/worker-task-name", f"worker runs in task named {at.get_name() if at else None!r}")
            return None
        pm, tid = ident
        tm = self.get_task(pm, tid)
        if tm.started:
            self.fail({"C11", "C02"}, "id/two-workers-one-id", f"{pm.name}#{tid} started twice")
            tm = TaskM(pm, tid, self.opno)  # detached record so the rest of the run stays sane
        if pm is not rm.pm:
            self.fail({"C11"}, "id/worker-in-foreign-pool", f"r{rm.rid} of {rm.pm.name} runs as {at.get_name()}")
        tm.atask = at
        tm.started = True
        tm.req = rm
        tm.call = rec
        rec.task = tm
        tm.start_seq = self.nseq()
        scripts = wspec.get("scripts") or [wspec.get("script", [])]
        script = scripts[rec.idx % len(scripts)]
        ends = wspec.get("ends") or [wspec.get("end", ["ret"])]
        end = ends[rec.idx % len(ends)]
        policy = wspec.get("on_cancel", "prop")
        if rm.spec.get("probe"):
            script, end, policy = [["wait"]], ["ret"], "prop"
        self.ev(f"wstart {pm.name}#{tid} r{rm.rid}[{rec.idx}]")
        how = "ret"
        self.in_user += 1
        try:
            self.observe("wstart")
        finally:
            self.in_user -= 1
        try:
            for sp, step in enumerate(script):
                try:
                    kind = step[0]
                    if kind == "wait":
                        await self.wait("worker", tm)
                    elif kind == "yield":
                        for _ in range(step[1]):
                            await asyncio.sleep(0)
                    elif kind == "aflush":
                        # the worker itself awaits flush(): legal (a running task is never among what flush gathers)
                        self.label("worker-awaits-flush")
                        tm.in_aflush = True
                        if tm.pending:
                            # a cancellation (its own, earlier in this step) is still on its way: it arrives inside flush()'s
                            # gather, which then cancels what flush awaits - like a cancellation of somebody inside flush()
                            self.label("worker-enters-flush-with-cancellation-pending")
                            pm.fault_seen = True
                            for o in pm.tasks.values():
                                if o is not tm and not o.finished() and not o.forgotten and (o.in_cb or o.body_done or not o.started):
                                    o.stray_ok = True
                                    o.disturbed = True
                        try:
                            await self.flush_inline({"op": "flush", "pool": pm.idx, "re": True})
                        finally:
                            tm.in_aflush = False
                    elif kind == "op":
                        self.in_user += 1
                        try:
                            # a suspension point of the worker's own that is certain to come (flush() need not suspend)
                            later = any(x[0] == "wait" or (x[0] == "yield" and x[1] >= 1) for x in script[sp + 1:])
                            self.exec_embedded(step[1], {"where": "worker", "task": tm, "req": rm, "suspends_later": later})
                        finally:
                            self.in_user -= 1
                except asyncio.CancelledError:
                    tm.cancels_seen += 1
                    tm.pending = False
                    tm.events.append(f"cancel@{sp}")
                    if kind == "aflush":
                        # cancelling somebody who awaits flush() cancels what flush was awaiting (asyncio.gather): like `abandon`
                        self.label("worker-cancelled-inside-flush")
                        pm.fault_seen = True
                        for o in pm.tasks.values():
                            if o is not tm and not o.finished() and not o.forgotten and (o.in_cb or o.body_done or not o.started):
                                o.stray_ok = True
                                o.disturbed = True
                    self.ev(f"wcancel {pm.name}#{tid} at step {sp}")
                    self.in_user += 1
                    try:
                        self.observe("wcancel")
                    finally:
                        self.in_user -= 1
                    if policy == "swallow" and tm.swallowed < 1:
                        tm.swallowed += 1
                        continue
                    if policy == "cleanup":
                        try:
                            await self.wait("cleanup", tm)
                        except asyncio.CancelledError:
                            tm.cancels_seen += 1
                            tm.pending = False
                            tm.events.append("cancel@cleanup")
                    raise
            if end[0] == "raise":
                exc = self.new_fault(f"worker r{rm.rid}[{rec.idx}]", wspec.get("fault_kind", 0), allow_base=True)
                tm.exc = exc
                tm.faults.append(exc)
                pm.injected.append(exc)
                pm.fault_seen = True
                raise exc
            if end[0] == "cancelled":
                self.label("worker:raises-CancelledError-itself")
                tm.events.append("cancel@own")
                raise asyncio.CancelledError()
            if wspec.get("retval") is not None:
                # returned, not raised: of no concern to anybody but the caller of the function
                self.label("worker:returns-exception-instance")
                return [RuntimeError("a returned value"), asyncio.CancelledError("a returned value"), None, KeyboardInterrupt("a returned value")][wspec["retval"] % 4]
            return ("ret", rm.rid, rec.idx)
        except asyncio.CancelledError:
            how = "cancel"
            raise
        except BaseException as e:
            if self.is_fault(e):
                how = "raise"
            raise
        finally:
            tm.how = how
            tm.body_done = True
            tm.end_seq = self.nseq()
            self.ev(f"wend {pm.name}#{tid} {how}")
            self.in_user += 1
            try:
                self.observe("wend")
            finally:
                self.in_user -= 1

    # ------------------------------------------------------------------ callbacks
    def make_cb(self, kind: str, spec: Optional[dict], rm_or_pm: Any):
        if spec is None:
            return None
        world = self

        def start(tid: Any):
            at = asyncio.current_task()
            pm_expected = rm_or_pm.pm if isinstance(rm_or_pm, ReqM) else rm_or_pm
            ident = world.pool_of_name(at.get_name()) if at is not None else None
            if ident is None or not isinstance(tid, int) or isinstance(tid, bool):
                world.fail({"C11", "C03"}, f"cb/{kind}-context", f"{kind} callback got {tid!r} in task {at.get_name() if at else None!r}")
                return None
            pm, name_tid = ident
            if name_tid != tid or pm is not pm_expected:
                world.fail({"C11", "C03"}, f"cb/{kind}-id-vs-task-name", f"{kind} callback got id {tid} in task {at.get_name()!r}")
            tm = world.get_task(pm, tid)
            if tm.atask is None:
                tm.atask = at
            if tm.req is None and isinstance(rm_or_pm, ReqM):
                tm.req = rm_or_pm
            world.ev(f"{kind}cb start {pm.name}#{tid}")
            if kind == "c":
                tm.ccb_n += 1
                tm.ccb_running = True
            else:
                tm.ecb_n += 1
                tm.ecb_running = True
            tm.events.append(f"{kind}cb+")
            world.label(f"cb:{kind}:{'async' if spec.get('async') else 'sync'}")
            world.cb_probe(kind, tm)
            world.observe(kind + "cb+")
            return tm

        def finish(tm: Optional[TaskM]) -> None:
            if tm is None:
                return
            if kind == "c":
                tm.ccb_running = False
                tm.ccb_done = True
            else:
                tm.ecb_running = False
                tm.ecb_done = True
            tm.events.append(f"{kind}cb-")
            world.ev(f"{kind}cb end {tm.pm.name}#{tm.tid}")
            world.observe(kind + "cb-")

        def injected(tm: Optional[TaskM]) -> Exception:
            exc = world.new_fault(f"{kind}cb", spec.get("fault_kind", 0), allow_base=True)
            if tm is not None:
                tm.pm.injected.append(exc)
                tm.pm.fault_seen = True
                tm.faults.append(exc)
                if tm.exc is None:
                    tm.exc = exc
            return exc

        if spec.get("async"):
            async def acb(tid: Any) -> None:
                world.in_user += 1
                try:
                    tm = start(tid)
                finally:
                    world.in_user -= 1
                completed = False
                try:
                    if spec.get("op") is not None:
                        world.in_user += 1
                        try:
                            world.exec_embedded(spec["op"], {"where": kind + "cb", "task": tm})
                        finally:
                            world.in_user -= 1
                    for _ in range(spec.get("yield", 0)):
                        await asyncio.sleep(0)
                    if spec.get("wait"):
                        await world.wait(kind + "cb", tm)
                    completed = True
                    if spec.get("raise"):
                        raise injected(tm)
                finally:
                    if not completed and tm is not None and not world.teardown:
                        tm.events.append(f"{kind}cb-interrupted")
                    world.in_user += 1
                    try:
                        finish(tm)
                    finally:
                        world.in_user -= 1
            if spec.get("partial"):
                import functools
                return functools.partial(acb)
            return acb

        def scb(tid: Any) -> None:
            world.in_user += 1
            try:
                tm = start(tid)
                try:
                    if spec.get("op") is not None:
                        world.exec_embedded(spec["op"], {"where": kind + "cb", "task": tm})
                    if spec.get("raise"):
                        raise injected(tm)
                finally:
                    finish(tm)
            finally:
                world.in_user -= 1
        if spec.get("partial"):
            import functools
            return functools.partial(scb)
        if spec.get("obj"):
            return CallableObject(scb)
        if spec.get("falsy"):
            return FalsyCallable(scb)
        return scb

    def cb_probe(self, kind: str, tm: TaskM) -> None:
        """State the pool attributes to the task while its callback runs, via the public cancel(id)."""
        pool = tm.pm.pool
        exc_mod = self.lib.exceptions
        try:
            pool.cancel(tm.tid)
        except exc_mod.AlreadyCancelled:
            got = "C"
        except exc_mod.AlreadyEnded:
            got = "E"
        except exc_mod.InvalidTaskID:
            got = "U"
        except Exception as e:  # pragma: no cover
            got = f"X:{type(e).__name__}"
        else:
            got = "R"
            # we just cancelled a task the pool still deems running: a stray cancellation of our own making
            tm.stray_ok = True
        want = "C" if kind == "c" else "E"
        if got != want:
            self.fail({"C03"}, f"cb/state-at-{kind}cb", f"{tm.pm.name}#{tm.tid}: cancel(id) says {got}, expected {want}")
        c = (pool.num_running, pool.num_cancelled, pool.num_ended)
        if kind == "c" and c[1] < 1:
            self.fail({"C03"}, "cb/num_cancelled-at-ccb", f"{tm.pm.name}#{tm.tid}: counters {c}")
        if kind == "e" and c[2] < 1:
            self.fail({"C03"}, "cb/num_ended-at-ecb", f"{tm.pm.name}#{tm.tid}: counters {c}")

    # ------------------------------------------------------------------ argument iterables
    def make_iter(self, rm: ReqM, spec: dict):
        world = self
        n = spec.get("n", 0)
        kind = rm.kind
        elems = []
        shapes = spec.get("shapes") or [0]
        # elements that cannot be unpacked into a call are accounted for when they are pulled: only where pulls and calls are observable
        unc_ok = not spec.get("as_list") and not rm.spec.get("plain")
        for j in range(n):
            s = Sentinel(f"r{rm.rid}e{j}")
            shape = shapes[j % len(shapes)]
            if kind == "map":
                # any object is an element: tuples, lists, dicts, strings, None
                elems.append([("m", s, j), ["m", s, j], {"s": s, "j": j}, f"r{rm.rid}e{j}", None, AnyEq(f"r{rm.rid}e{j}"), 0][shape % 7])
            elif kind == "starmap":
                # func(*x) for any iterable x: a dict contributes its keys, a string its characters
                # shape 5: not iterable - func(*7) raises TypeError before func is even entered: a failing call like any other
                elems.append([("m", s, j), ["m", s], {s: 1, Sentinel(f"r{rm.rid}f{j}"): 2}, "ab", (), 7 if unc_ok else ()][shape % 6])
            else:
                import types as _t
                # shape 6: no mapping - func(**[...]) raises TypeError before func is entered
                elems.append([{"s": s, "j": j}, _t.MappingProxyType({"s": s}), {}, {"s": s, "j": j}, StrMapping({"k": s}),
                              {"func": s, "function": j, "group_name": j, "self": None, "args": (), "kwargs": {}, "arg": 1, "arg_stars": 2, "cls": 3, "awaitable": 4,
                               "coroutine_function": 5},
                              [("a", 1)] if unc_ok else {}][shape % 7])
        rm.elements = elems
        pull_ops = spec.get("pull_ops") or {}
        raise_at = spec.get("raise_at", -1)

        def gen():
            try:
                for j in range(n):
                    if j == raise_at and spec.get("fault_kind", 0) == 5:
                        # the user's iterator raises CancelledError inside the meta task (e.g. it awaited... no: it called something that
                        # was cancelled): the request just ends there - nobody else is harmed, flush()/gather_and_close() raise nothing
                        rm.pm.fault_seen = True
                        rm.iter_failed = j  # type: ignore[attr-defined]
                        rm.iter_cancelled = j  # type: ignore[attr-defined]
                        world.ev(f"iterator of r{rm.rid} raises CancelledError at {j}")
                        world.label("fault:iterator-raises-CancelledError")
                        raise asyncio.CancelledError()
                    if j == raise_at:
                        exc = world.new_fault(f"iterator r{rm.rid}[{j}]", spec.get("fault_kind", 0))
                        rm.pm.injected.append(exc)
                        rm.pm.fault_seen = True
                        rm.iter_failed = j  # type: ignore[attr-defined]
                        world.ev(f"iterator of r{rm.rid} raises at {j}")
                        world.label("fault:iterator")
                        raise exc
                    rm.pulled += 1
                    world.ev(f"pull r{rm.rid}[{j}]")
                    rm.in_pull = True
                    world.in_user += 1
                    try:
                        world.observe("pull")
                        op = pull_ops.get(str(j))
                        if op is not None:
                            world.exec_embedded(op, {"where": "iter", "req": rm})
                    finally:
                        world.in_user -= 1
                        rm.in_pull = False
                    el = elems[j]
                    if (kind == "starmap" and isinstance(el, int)) or (kind == "doublestarmap" and isinstance(el, list)):
                        # the call the pool is about to attempt cannot succeed: accounted for as a call that raised
                        rec = CallRec(rm, len(rm.calls), (), {}, True, world.opno)
                        rec.uncallable = True
                        rm.calls.append(rec)
                        rm.pm.fault_seen = True
                        world.label("fault:element-cannot-be-unpacked")
                    yield el
                rm.exhausted = True
                world.ev(f"exhausted r{rm.rid}")
            finally:
                rm.closed_iter = True

        if spec.get("as_list"):
            rm.pulled = -1  # not observable
            return list(elems)
        if spec.get("hint") is not None:
            hint = spec["hint"]

            class Hinted:
                """A one-shot iterator that also answers operator.length_hint() - with a wrong number (a hint is only a hint)."""

                def __init__(self_inner) -> None:
                    self_inner.g = None

                def __iter__(self_inner) -> Any:
                    rm.iter_calls += 1
                    return self_inner

                def __next__(self_inner) -> Any:
                    if self_inner.g is None:
                        self_inner.g = gen()
                    return next(self_inner.g)

                def __length_hint__(self_inner) -> int:
                    return hint
            world.label("iterable:wrong-length-hint")
            return Hinted()
        if spec.get("as_cursor"):
            class Cursor:
                """An iterable that is not its own iterator: asking it for an iterator is observable (and must not happen for a rejected request)."""

                def __iter__(self_inner) -> Any:
                    rm.iter_calls += 1
                    world.ev(f"iter() on the iterable of r{rm.rid}")
                    return gen()
            return Cursor()
        return gen()


class FormatHandler(logging.Handler):
    """Formats every record (as any real handler would) and drops it. A record that cannot be formatted is treated as every standard
    handler treats it: logging.Handler.handleError prints '--- Logging error ---' and a traceback on stderr and goes on (that output is
    captured and judged by the control checks; the sim checks have no clause about stderr and stay silent)."""

    def __init__(self, report: bool = False) -> None:
        super().__init__()
        self.report = report

    def emit(self, record: logging.LogRecord) -> None:
        try:
            record.getMessage()
        except Exception:
            if self.report:
                self.handleError(record)


def debug_logging(report: bool = False) -> None:
    log = logging.getLogger("asyncio_taskpool")
    log.handlers[:] = [FormatHandler(report)]
    log.propagate = False
    log.setLevel(logging.DEBUG)
    for name in list(logging.root.manager.loggerDict):
        if name.startswith("asyncio_taskpool."):
            logging.getLogger(name).setLevel(logging.NOTSET)


def quiet_logging() -> None:
    log = logging.getLogger("asyncio_taskpool")
    log.handlers[:] = [logging.NullHandler()]
    log.propagate = False
    log.setLevel(logging.CRITICAL + 1)
    alog = logging.getLogger("asyncio")
    alog.handlers[:] = [logging.NullHandler()]
    alog.propagate = False
    warnings.simplefilter("ignore")
