"""Reference-model records kept by the harness (built from harness-owned events only)."""
from __future__ import annotations

from typing import Any, Dict, List, Optional, Set


class Injected(Exception):
    """The only exception type the harness injects on purpose."""

    def __init__(self, *args: object) -> None:
        super().__init__(*args)
        self.tag = str(args[-1]) if args else ""


class Fatal(BaseException):
    """An injected failure that is no `Exception` (user code can die of anything)."""

    def __init__(self, tag: str) -> None:
        super().__init__(tag)
        self.tag = tag


class CallRec:
    """One synchronous call of a worker function (the point where an element becomes a coroutine)."""

    __slots__ = ("req", "idx", "args", "kwargs", "raised", "task", "spawner", "opno", "uncallable")

    def __init__(self, req: "ReqM", idx: int, args: tuple, kwargs: dict, raised: bool, opno: int) -> None:
        self.req, self.idx, self.args, self.kwargs, self.raised = req, idx, args, kwargs, raised
        self.task: Optional[TaskM] = None
        self.spawner = None
        self.opno = opno
        self.uncallable = False      # the element cannot even be unpacked into a call (func(*7), func(**[1])): TypeError before func runs


class TaskM:
    """A task of a pool as the harness knows it."""

    __slots__ = (
        "pm", "tid", "atask", "req", "call", "started", "body_done", "how", "cancels_seen", "cancel_req",
        "cancel_req_before_start", "ccb_n", "ecb_n", "ccb_running", "ecb_running", "ccb_done", "ecb_done",
        "reg", "forgotten", "may_forget", "created_op", "events", "swallowed", "exc", "start_seq", "end_seq",
        "stray_ok", "deliv_expected", "pending", "reg_seen", "faults", "disturbed", "in_aflush",
    )

    def __init__(self, pm: "PoolM", tid: int, created_op: int) -> None:
        self.pm, self.tid = pm, tid
        self.atask = None
        self.req: Optional[ReqM] = None
        self.call: Optional[CallRec] = None
        self.started = False
        self.body_done = False
        self.how: Optional[str] = None
        self.cancels_seen = 0
        self.cancel_req = 0  # cancellations the model knows were requested for it (by id, group, all, stop)
        self.cancel_req_before_start = False
        self.ccb_n = self.ecb_n = 0
        self.ccb_running = self.ecb_running = False
        self.ccb_done = self.ecb_done = False
        self.reg: Optional[str] = None  # last registry state seen: R / C / E / None
        self.forgotten = False
        self.may_forget = False
        self.created_op = created_op
        self.events: List[str] = []
        self.swallowed = 0
        self.exc: Optional[BaseException] = None
        self.start_seq = -1
        self.end_seq = -1
        self.stray_ok = False
        self.deliv_expected = 0
        self.pending = False
        self.reg_seen = False
        self.faults: list = []
        self.disturbed = False
        self.in_aflush = False

    def request_cancel(self) -> None:
        """The model knows a cancellation was just requested for this task."""
        self.cancel_req += 1
        if not self.started:
            self.cancel_req_before_start = True
        if not self.pending:
            self.pending = True
            self.deliv_expected += 1

    @property
    def live(self) -> bool:
        return self.started and not self.body_done

    @property
    def in_cb(self) -> bool:
        return self.ccb_running or self.ecb_running

    def finished(self) -> bool:
        return self.atask is not None and self.atask.done()


class ReqM:
    """A spawn request (apply / map / starmap / doublestarmap / start)."""

    def __init__(self, pm: "PoolM", rid: int, spec: dict) -> None:
        self.pm, self.rid, self.spec = pm, rid, spec
        self.kind: str = spec["kind"]
        self.accepted = False
        self.group: Optional[str] = None
        self.calls: List[CallRec] = []
        self.tids: List[int] = []          # ids attributed to this request, creation order
        self.pulled = 0
        self.exhausted = False
        self.cancelled = False             # group cancellation executed (model)
        self.cancel_op = -1
        self.closed_iter = False
        self.spawner = None                # the meta task (found through asyncio.all_tasks diff)
        self.args: Any = None
        self.kwargs: Any = None
        self.elements: List[Any] = []
        self.issue_op = -1
        self.n_wstart_at_cancel = -1
        self.pulled_at_cancel = -1
        self.calls_at_cancel = -1
        self.in_pull = False
        self.in_call = False
        self.explicit_name: Optional[str] = None
        self.group_forgotten = False       # name released (cancel_group / cancel_all)
        self.waited_for_room = False
        self.disturbed = False             # lock/close/competing happened mid-way (C04 non-trivial)
        self.single_cancels = 0
        self.iter_calls = 0

    @property
    def expected_calls(self) -> int:
        if self.kind in ("apply", "start"):
            return max(0, self.spec.get("num", 1))
        return self.spec.get("n", 0)

    @property
    def nc(self) -> Any:
        v = self.spec.get("nc", 1)
        return float("inf") if v == "inf" else v

    def ok_calls(self) -> List[CallRec]:
        return [c for c in self.calls if not c.raised]


class PoolM:
    def __init__(self, idx: int, spec: dict) -> None:
        self.idx, self.spec = idx, spec
        self.pool: Any = None
        self.size: float = float("inf") if spec.get("size") is None else spec["size"]
        self.name: str = ""
        self.tasks: Dict[int, TaskM] = {}
        self.reqs: List[ReqM] = []
        self.locked = False
        self.closing = False               # gather_and_close has started executing
        self.closed = False
        self.close_calls = 0
        self.groups_live: Dict[str, ReqM] = {}
        self.size_assigned = False         # pool_size reassigned at least once (C15 territory)
        self.size_dirty = False            # reassigned while occupied (open finding D4 territory)
        self.start_groups = 0
        self.until_closed_waiters: List[Any] = []
        self.fault_seen = False            # a worker / callback / iterator raised in this pool
        self.injected: List[BaseException] = []
        self.confused = False

    def live_tasks(self) -> List[TaskM]:
        return [t for t in self.tasks.values() if t.live]

    def running_model(self) -> List[TaskM]:
        """Tasks the model deems 'running' for the pool, in creation order."""
        return [t for t in sorted(self.tasks.values(), key=lambda t: t.tid)
                if not t.body_done and not t.forgotten and not t.finished() and not (t.ccb_n or t.ecb_n)]

    def any_cb(self) -> bool:
        return any(t.in_cb for t in self.tasks.values())
