"""Interpreter: runs a generated program against the real library on a real loop; evaluates the oracles."""
from __future__ import annotations

import asyncio
import gc
import re
from math import inf
from typing import Any, Dict, List, Optional

from ..common import CaseTimeout
from .model import CallRec, Injected, PoolM, ReqM, TaskM
from .oracles import Oracles
from .world import Inconclusive, Sentinel, World, debug_logging, quiet_logging

ASYNC_OPS = {"flush", "close", "until_closed"}
NAME_RE = {
    "apply": re.compile(r"^apply-(.+)-group-(\d+)$"),
    "map": re.compile(r"^map-(.+)-group-(\d+)$"),
    "starmap": re.compile(r"^starmap-(.+)-group-(\d+)$"),
    "doublestarmap": re.compile(r"^doublestarmap-(.+)-group-(\d+)$"),
    "start": re.compile(r"^start-group-(\d+)$"),
}


class Lib:
    def __init__(self) -> None:
        import asyncio_taskpool
        from asyncio_taskpool import exceptions, pool
        self.pkg = asyncio_taskpool
        self.exceptions = exceptions
        self.pool = pool
        self.TaskPool = pool.TaskPool
        self.SimpleTaskPool = pool.SimpleTaskPool
        self.BaseTaskPool = pool.BaseTaskPool


_LIB: Optional[Lib] = None


def lib() -> Lib:
    global _LIB
    if _LIB is None:
        _LIB = Lib()
        quiet_logging()
    return _LIB


# keyword names a user function may well have - and a careless helper inside the library, too
AWKWARD_KW = ["func", "group", "group_name", "self", "args", "kwargs", "num", "end_callback", "cancel_callback", "awaitable", "task_id",
              "coroutine_function", "name", "cls", "pool", "function", "coroutine", "callback", "loop", "msg"]


def kw_key(offset: Any, k: int) -> str:
    return f"k{k}" if offset is None else AWKWARD_KW[(offset + k) % len(AWKWARD_KW)]


class Result:
    def __init__(self) -> None:
        self.violations: List[dict] = []
        self.labels: List[str] = []
        self.stats: Dict[str, int] = {}
        self.inconclusive: Optional[str] = None
        self.trace: List[str] = []
        self.error: Optional[str] = None
        self.history: list = []
        self.requests: list = []
        self.lib_error: Optional[str] = None


class Run(Oracles):
    def __init__(self, program: dict, trace: bool = False) -> None:
        self.program = program
        self.L = lib()
        self.w = World(program, self.L)
        self.w.trace_on = trace
        self.w.exec_embedded = self.exec_embedded
        self.w.flush_inline = lambda op: self.actor_flush(op, inline=True)
        self.spawner_map: Dict[Any, ReqM] = {}
        self.cfg = program.get("cfg", {})
        self.guards = set(program.get("guards", ()))   # open findings whose triggers are skipped
        self.in_epilogue = False
        Oracles.__init__(self)

    # ------------------------------------------------------------------ set-up
    def make_pools(self) -> None:
        L, w = self.L, self.w
        L.BaseTaskPool._pools.clear()
        for i, spec in enumerate(self.program["pools"]):
            pm = PoolM(i, spec)
            size = inf if spec.get("size") is None else (float(spec["size"]) if spec.get("size_as_float") else spec["size"])
            kw: Dict[str, Any] = {}
            if spec.get("name") is not None:
                kw["name"] = spec["name"]      # "" included: it must behave like no name
            if spec.get("size") is not None or spec.get("size_explicit_inf"):
                kw["pool_size"] = size
            if spec["cls"] == "SimpleTaskPool":
                ws = spec.get("worker", {})
                pm.s_args = tuple(Sentinel(f"p{i}a{k}") for k in range(ws.get("nargs", 0)))  # type: ignore[attr-defined]
                nk = ws.get("nkw", 0)
                pm.s_kwargs = None if nk < 0 else {kw_key(ws.get("kwkeys"), k): Sentinel(f"p{i}k{k}") for k in range(nk)}  # type: ignore[attr-defined]
                fn = w.make_worker(lambda pm=pm: self.resolve_simple(pm), ws, plain=False)
                pm.pool = L.SimpleTaskPool(
                    fn, args=pm.s_args, kwargs=pm.s_kwargs,  # type: ignore[attr-defined]
                    end_callback=w.make_cb("e", spec.get("ecb"), pm),
                    cancel_callback=w.make_cb("c", spec.get("ccb"), pm), **kw)
            else:
                pm.pool = L.TaskPool(**kw)
            pm.name = str(pm.pool)
            if pm.name in w.name_re:
                w.fail({"C11"}, "name/pools-share-a-name", pm.name)
            w.name_re[pm.name] = pm
            w.pools.append(pm)

    def resolve_simple(self, pm: PoolM) -> Optional[ReqM]:
        try:
            t = asyncio.current_task()
        except RuntimeError:
            t = None
        return self.spawner_map.get(t)

    def pm_of(self, op: dict) -> PoolM:
        return self.w.pools[op.get("pool", 0) % len(self.w.pools)]

    # ------------------------------------------------------------------ running
    def execute(self) -> Result:
        res = Result()
        w = self.w
        loop = asyncio.new_event_loop()
        w.loop = loop
        loop.set_exception_handler(lambda loop, ctx: None)
        from ..common import deterministic_tasks, h8
        salt = self.program.get("salt")
        if salt is None:
            salt = int(h8({"pools": self.program.get("pools"), "steps": self.program.get("steps")}), 16)
        self.TaskCls = deterministic_tasks(loop, salt)
        debug = self.program.get("log") == "debug"
        if debug:
            debug_logging()
            w.label("config:logger-at-DEBUG")
        try:
            asyncio.set_event_loop(loop)
            loop.run_until_complete(self.driver())
        except Inconclusive as e:
            w.inconclusive = str(e)
        except Exception as e:  # harness or library blew up in the driver itself
            import traceback
            lib = [f for f in traceback.extract_tb(e.__traceback__) if "/asyncio_taskpool/" in f.filename]
            if lib:
                # an exception nobody documents escaped from the library into the calling step: a violation of whatever
                # property is being checked (the runner attributes it), not a harness error
                res.lib_error = f"{type(e).__name__}@{lib[-1].name}: {e}"[:200]
            else:
                res.error = "".join(traceback.format_exception(type(e), e, e.__traceback__))[-3000:]
        finally:
            w.teardown = True
            try:
                self.drain(loop)
            finally:
                asyncio.set_event_loop(None)
                loop.close()
                if debug:
                    quiet_logging()
        res.history = self.history()
        res.requests = [(pm.idx, rm.rid, rm.kind, bool(rm.accepted), rm.group if rm.accepted else None, len(rm.tids), len(rm.calls), rm.pulled)
                        for pm in w.pools for rm in pm.reqs]
        res.violations = [v.as_dict() for v in w.viol]
        res.labels = sorted(w.labels)
        res.stats = dict(w.stats)
        res.stats["ops"] = w.opno
        res.inconclusive = w.inconclusive
        res.trace = w.trace
        return res

    def history(self) -> list:
        """Observable per-invocation history (for the differential oracle of C12)."""
        out = []
        for pm in self.w.pools:
            started = sorted((t for t in pm.tasks.values() if t.started), key=lambda t: t.start_seq)
            rank = {id(t): i for i, t in enumerate(started)}
            for rm in pm.reqs:
                for c in rm.calls:
                    t = c.task
                    faulty = c.raised or (t is not None and t.exc is not None)
                    out.append({"pool": pm.idx, "rid": rm.rid, "idx": c.idx, "tid": None if t is None else t.tid,
                                "rank": None if t is None else rank.get(id(t)), "how": None if t is None else t.how,
                                "cancels": 0 if t is None else t.cancels_seen, "ecb": 0 if t is None else t.ecb_n,
                                "ccb": 0 if t is None else t.ccb_n, "faulty": faulty, "raised_at_call": c.raised})
        return out

    def drain(self, loop: asyncio.AbstractEventLoop) -> None:
        w = self.w
        for _ in range(50):
            w.release_all()
            pending = [t for t in asyncio.all_tasks(loop) if not t.done()]
            if not pending:
                break
            for t in pending:
                try:
                    t.cancel()
                except RecursionError:
                    pass      # a task that (through a gather) awaits itself: cancelling recurses; it is abandoned with the loop
            try:
                loop.run_until_complete(asyncio.wait(pending, timeout=0))
                loop.run_until_complete(asyncio.sleep(0))
            except CaseTimeout:
                raise
            except BaseException:
                pass
        for t in asyncio.all_tasks(loop):
            if t.done() and not t.cancelled():
                t.exception()
        for pm in w.pools:
            for tm in pm.tasks.values():
                if tm.atask is not None and tm.atask.done() and not tm.atask.cancelled():
                    tm.atask.exception()

    async def driver(self) -> None:
        w = self.w
        self.make_pools()
        self.install_checks()
        w.observe("init")
        for step in self.program["steps"]:
            await self.do_step(step)
            if w.inconclusive:
                return
        await self.epilogue()

    async def do_step(self, step: dict) -> None:
        w = self.w
        op = step["op"]
        if op == "tick":
            await w.tick(step.get("k", 1))
            return
        if op == "settle":
            await w.settle()
            return
        place = step.get("place", "inline")
        if op in ASYNC_OPS:
            self.start_actor(step)
        elif place == "task":
            t = asyncio.ensure_future(self.sync_actor(step))
            w.actors.append(t)
        elif place == "soon":
            w.loop.call_soon(self.exec_sync, step, {"where": "soon"})
        else:
            self.exec_sync(step, {"where": "driver"})
        w.observe("step")

    async def sync_actor(self, step: dict) -> None:
        self.exec_sync(step, {"where": "actor"})

    def exec_embedded(self, op: dict, ctx: dict) -> None:
        if self.w.teardown or self.in_epilogue:
            return
        if op["op"] in ASYNC_OPS:
            self.start_actor(op)       # embedded code cannot await these on its own pool; hand over to an actor
        else:
            self.exec_sync(op, ctx)

    def exec_sync(self, op: dict, ctx: dict) -> None:
        w = self.w
        if w.teardown:
            return
        name = op["op"]
        fn = getattr(self, "op_" + name)
        w.ev(f"op {name} @{ctx.get('where')} {({k: v for k, v in op.items() if k not in ('op', 'worker', 'ecb', 'ccb', 'iter')})}")
        w.count("op:" + name)
        self.scan("pre-op")     # the model must be current when the operation executes
        fn(op, ctx)
        w.observe("op")

    def start_actor(self, op: dict) -> None:
        op = dict(op, pool=self.pm_of(op).idx)       # the pool is fixed when the call is issued (pools may be added later)
        coro = getattr(self, "actor_" + op["op"])(op)
        if op.get("place", "eager") == "eager":
            # the caller awaits the blocking method in place: its synchronous prefix runs right now (Python 3.12 eager start)
            t = self.TaskCls(coro, loop=self.w.loop, eager_start=True)
        else:
            t = asyncio.ensure_future(coro)
        t.vt_pm = self.pm_of(op)  # type: ignore[attr-defined]
        self.w.actors.append(t)

    # ------------------------------------------------------------------ reference resolution
    def resolve_tid(self, pm: PoolM, ref: list) -> int:
        kind, k = ref[0], ref[1]
        tasks = sorted(pm.tasks.values(), key=lambda t: t.tid)
        if kind == "run":
            c = [t.tid for t in tasks if not t.body_done and not t.forgotten and not t.finished()]
        elif kind == "live":
            c = [t.tid for t in tasks if t.live]
        elif kind == "stale":
            c = [t.tid for t in tasks if t.body_done or t.finished()]
        elif kind == "incb":
            c = [t.tid for t in tasks if t.in_cb]
        elif kind == "any":
            c = [t.tid for t in tasks]
        elif kind == "neg":
            return -1 - k
        elif kind == "frac":
            # no id at all: half way between two ids (never issued, whatever is running)
            c = [t.tid for t in tasks if not t.body_done and not t.forgotten and not t.finished()]
            return (c[k % len(c)] if c else k) + 0.5  # type: ignore[return-value]
        else:
            c = []
        if not c:
            top = max(pm.tasks) + 1 if pm.tasks else 0
            return top + k
        return c[k % len(c)]

    def resolve_group(self, pm: PoolM, ref: list, ctx: dict) -> str:
        kind, k = ref[0], ref[1]
        live = [n for n in pm.groups_live]
        if kind == "live" and live:
            return live[k % len(live)]
        if kind == "own" and ctx.get("req") is not None and ctx["req"].group:
            return ctx["req"].group
        if kind == "dead":
            dead = [r.group for r in pm.reqs if r.group and r.group not in pm.groups_live]
            if dead:
                return dead[k % len(dead)]
        return f"no-such-group-{k}"

    # ------------------------------------------------------------------ spawn
    def build_request(self, pm: PoolM, op: dict) -> ReqM:
        w = self.w
        spec = dict(op)
        simple = pm.spec["cls"] == "SimpleTaskPool"
        if simple:
            spec["kind"] = "start"
            spec.setdefault("num", spec.get("n", 1))
            for k in ("plain", "worker", "ecb", "ccb", "gname", "pull_ops", "nc", "nargs", "nkw"):
                spec.pop(k, None)
        elif spec["kind"] == "start":
            spec["kind"] = "apply"
        rm = ReqM(pm, w.rid, spec)
        w.rid += 1
        return rm

    def call_spawn(self, pm: PoolM, rm: ReqM, func_override: Any = None, extra: Optional[dict] = None) -> Any:
        """Issues the request on the real pool. Returns the group name or raises what the pool raises."""
        w = self.w
        spec = rm.spec
        pool = pm.pool
        kind = rm.kind
        if kind == "start":
            rm.args, rm.kwargs = pm.s_args, pm.s_kwargs  # type: ignore[attr-defined]
            return pool.start(spec.get("num", 1))
        wspec = spec.get("worker", {})
        func = func_override if func_override is not None else w.make_worker(rm, wspec, plain=bool(spec.get("plain")))
        kw: Dict[str, Any] = {}
        if spec.get("gname") is not None:
            kw["group_name"] = rm.explicit_name = self.explicit_name(pm, spec["gname"])
        ecb = w.make_cb("e", spec.get("ecb"), rm)
        ccb = w.make_cb("c", spec.get("ccb"), rm)
        if ecb is not None:
            kw["end_callback"] = ecb
        if ccb is not None:
            kw["cancel_callback"] = ccb
        if extra:
            kw.update(extra)
        if kind == "apply":
            na = spec.get("nargs", 0)
            rm.args = tuple(Sentinel(f"r{rm.rid}a{k}") for k in range(na))
            if spec.get("args_as_str") and na:
                rm.args = tuple("abc"[:na])        # a string is an iterable of positional arguments like any other
                rm.args_eq = True  # type: ignore[attr-defined]
            nk = spec.get("nkw", 0)
            rm.kwargs = None if nk < 0 else {kw_key(spec.get("kwkeys"), k): Sentinel(f"r{rm.rid}k{k}") for k in range(nk)}
            if "num" in spec:
                kw["num"] = spec["num"]
            if na or spec.get("pass_args"):
                # any iterable of positional arguments / any mapping of keyword arguments
                kw["args"] = "".join(rm.args) if spec.get("args_as_str") and na else list(rm.args) if spec.get("args_as_list") else rm.args
            if nk != 0 or spec.get("pass_kwargs"):
                if rm.kwargs is not None and spec.get("kwargs_as_mapping"):
                    from .world import StrMapping
                    kw["kwargs"] = StrMapping(rm.kwargs)
                else:
                    kw["kwargs"] = rm.kwargs
            return pool.apply(func, **kw)
        it = w.make_iter(rm, {"n": spec.get("n", 0), "pull_ops": spec.get("pull_ops"), "as_list": spec.get("as_list"),
                              "raise_at": spec.get("iter_raise_at", -1), "fault_kind": spec.get("fault_kind", 0), "shapes": spec.get("shapes"),
                              "as_cursor": spec.get("as_cursor"), "hint": spec.get("hint")})
        if "nc" in spec:
            kw["num_concurrent"] = inf if spec["nc"] == "inf" else spec["nc"]
        return getattr(pool, kind)(func, it, **kw)

    def explicit_name(self, pm: PoolM, g: Any) -> str:
        """Explicit group names; some imitate the generated pattern on purpose."""
        if isinstance(g, str):
            return g
        pats = ["grp-%d", "apply-w-group-%d", "map-w-group-%d", "start-group-%d", "starmap-w-group-%d", "apply-x-group-%d", "", "default", "0"]
        pat = pats[g[0] % len(pats)]
        return pat % g[1] if "%" in pat else pat

    def op_spawn(self, op: dict, ctx: dict) -> None:
        w, L = self.w, self.L
        pm = self.pm_of(op)
        rm = self.build_request(pm, op)
        rm.issue_op = w.opno
        before = set(asyncio.all_tasks(w.loop))
        snap = self.snapshot(pm)
        expected = self.expected_rejection(pm, rm)
        if expected["must"] and self.program.get("suppress_rejected"):
            w.label("twin:request-not-made")      # the twin of C09: what must be rejected is not requested at all
            return
        try:
            name = self.call_spawn(pm, rm)
        except Exception as e:
            self.check_rejection(pm, rm, e, expected, snap, before)
            return
        if expected["must"]:
            w.fail({"C09", "C08"} if "PoolIsClosed" in expected["must"] else {"C09"}, "spawn/accepted-but-must-reject",
                   f"{rm.kind} accepted, expected one of {sorted(expected['must'])}")
        self.accept(pm, rm, name, before)

    def accept(self, pm: PoolM, rm: ReqM, name: Any, before: set) -> None:
        w = self.w
        rm.accepted = True
        pm.reqs.append(rm)
        new = [t for t in asyncio.all_tasks(w.loop) if t not in before]
        if len(new) == 1:
            rm.spawner = new[0]
            self.spawner_map[new[0]] = rm
        else:
            pm.confused = True
        if not isinstance(name, str):
            w.fail({"C10"}, "group/returned-name-not-str", repr(name))
            name = str(name)
        rm.group = name
        fname = rm.spec.get("worker", {}).get("fname", "w")
        if rm.explicit_name is not None:
            if name != rm.explicit_name:
                w.fail({"C10"}, "group/explicit-name-not-returned", f"asked {rm.explicit_name!r} got {name!r}")
        else:
            m = NAME_RE[rm.kind].match(name)
            if not m or (rm.kind != "start" and m.group(1) != fname):
                w.fail({"C10"}, "group/name-pattern", f"{rm.kind} of {fname!r} returned {name!r}")
        if name in pm.groups_live:
            # (C04: the invocations of this apply()/start() are then no longer those of "its" group)
            w.fail({"C10", "C09"} | ({"C04"} if rm.kind in ("apply", "start") else {"C05"}), "group/name-collides-with-live-group", name)
        if any(r.group == name for r in pm.reqs if r is not rm):
            w.label("group:name-reused")
        if rm.kind == "start" and name != f"start-group-{pm.start_groups}":
            w.fail({"C10", "C09"}, "group/start-group-index", f"{name}, {pm.start_groups} accepted start() calls before")
        pm.groups_live[name] = rm
        if rm.kind == "start":
            pm.start_groups += 1
        others = [r for r in pm.reqs if r is not rm and self.req_active(r)]
        if others:
            rm.disturbed = True
            for r in others:
                r.disturbed = True
        w.label("spawn:" + rm.kind)

    def req_active(self, rm: ReqM) -> bool:
        """Spawner still has work to do (model)."""
        if not rm.accepted or rm.cancelled:
            return False
        if rm.kind in ("apply", "start"):
            return len(rm.calls) < rm.expected_calls or any(c.task is None and not c.raised and self.call_pending(c) for c in rm.calls)
        return not rm.exhausted or any(self.call_pending(c) for c in rm.calls if not c.raised)

    def call_pending(self, c: CallRec) -> bool:
        """A successful call whose coroutine has not been turned into a task yet (as far as the model can tell)."""
        rm = c.req
        ok = [x for x in rm.calls if not x.raised]
        pos = ok.index(c)
        return pos >= len(rm.tids)

    # ------------------------------------------------------------------ simple sync ops
    def op_lock(self, op: dict, ctx: dict) -> None:
        pm = self.pm_of(op)
        pm.pool.lock()
        pm.locked = True
        self.mark_disturbed(pm)
        if pm.pool.is_locked is not True:
            self.w.fail({"C09"}, "lock/is_locked-false-after-lock", "")

    def op_unlock(self, op: dict, ctx: dict) -> None:
        pm = self.pm_of(op)
        if pm.closing and not pm.closed and "unlock_while_closing" not in self.cfg:
            return  # undoing gather_and_close's own lock mid-way is outside every statement
        pm.pool.unlock()
        pm.locked = False
        if pm.pool.is_locked is not False:
            self.w.fail({"C09"}, "lock/is_locked-true-after-unlock", "")

    def mark_disturbed(self, pm: PoolM) -> None:
        for r in pm.reqs:
            if self.req_active(r):
                r.disturbed = True
                self.w.label("lock-or-close-while-spawner-active")

    def op_gate(self, op: dict, ctx: dict) -> None:
        self.w.release(op.get("k", 0))

    def op_gate_all(self, op: dict, ctx: dict) -> None:
        self.w.release_all()

    def op_new_pool(self, op: dict, ctx: dict) -> None:
        """Another (unnamed) pool created mid-run: its name must differ from every pool alive in this loop (C11)."""
        from .model import PoolM
        w, L = self.w, self.L
        if len(w.pools) >= 4:
            return
        spec = {"cls": "TaskPool", "size": op.get("size")}
        pm = PoolM(len(w.pools), spec)
        kw = {} if spec["size"] is None else {"pool_size": spec["size"]}
        # optionally a class from a "class factory": a distinct class that carries the same __name__ as TaskPool
        cls = type("TaskPool", (L.TaskPool,), {}) if op.get("factory") else L.TaskPool
        pm.pool = cls(**kw)
        pm.name = str(pm.pool)
        if pm.name in w.name_re:
            w.fail({"C11"}, "name/pools-share-a-name", f"{pm.name} (pool created mid-run)")
            return
        w.name_re[pm.name] = pm
        w.pools.append(pm)
        w.label("new-pool-mid-run")
        if any(p.closed for p in w.pools):
            w.label("new-pool-after-a-close")

    def op_noop(self, op: dict, ctx: dict) -> None:
        pass
