"""Operations with oracles, invariants, idle predicates and end-of-run obligations."""
from __future__ import annotations

import asyncio
from math import inf
from typing import Any, Dict, List, Optional, Set

from ..common import CaseTimeout
from .model import CallRec, Injected, PoolM, ReqM, TaskM

CANCEL_PROPS = {"cancel": "C06", "cancel_group": "C07", "cancel_all": "C07", "stop": "C14", "stop_all": "C14",
                "flush": "C13", "set_size": "C15", "close": "C08"}


class Oracles:
    w: Any
    L: Any

    def __init__(self) -> None:
        self.ops_seen: Set[str] = set()
        self.flushes_active = 0
        self.flush_actors: List[Any] = []
        self.forget_epoch = 0
        self.uc_actors: List[Any] = []
        self.probe_mode = False
        self.scan_all_tasks = False

    # ================================================================== snapshots & rejections (C09)
    def snapshot(self, pm: PoolM) -> tuple:
        pool = pm.pool
        groups = []
        for name in sorted(pm.groups_live):
            try:
                groups.append((name, tuple(sorted(pool.get_group_ids(name)))))
            except Exception as e:
                groups.append((name, type(e).__name__))
        calls = sum(len(r.calls) for p in self.w.pools for r in p.reqs)
        pulled = sum(max(r.pulled, 0) for p in self.w.pools for r in p.reqs)
        starts = sum(1 for p in self.w.pools for t in p.tasks.values() if t.started)
        return (pool.num_running, pool.num_cancelled, pool.num_ended, pool.is_locked, tuple(groups), calls, pulled,
                starts, len(asyncio.all_tasks(self.w.loop)), pool.pool_size)

    def expected_rejection(self, pm: PoolM, rm: ReqM, extra_causes: Optional[Set[str]] = None) -> dict:
        causes: Set[str] = set(extra_causes or ())
        if pm.closed:
            causes.add("PoolIsClosed")
        elif pm.locked or pm.closing:
            causes.add("PoolIsLocked")
        if pm.closed and (pm.locked or pm.closing):
            pass  # closed beats locked
        name = None
        if rm.spec.get("gname") is not None and rm.kind != "start":
            name = self.explicit_name(pm, rm.spec["gname"])  # type: ignore[attr-defined]
            if name in pm.groups_live:
                causes.add("TaskGroupAlreadyExists")
        return {"must": causes}

    def check_rejection(self, pm: PoolM, rm: ReqM, exc: Exception, expected: dict, snap: tuple, before: set) -> None:
        w = self.w
        got = type(exc).__name__
        must = expected["must"]
        w.label("rejected:" + got)
        if len(must) >= 2:
            w.label("rejected:multi-cause")
        if pm.closed and got == "TaskGroupAlreadyExists":
            # C08: on a closed pool *every* spawn request raises PoolIsClosed - a name that happens to be taken does not come first
            w.fail({"C08"}, "close/request-on-closed-pool-raised-another-error", f"{rm.kind} raised {got}")
        if not must:
            props = {"C09", "C04"} if rm.kind in ("apply", "start") else {"C09", "C05"}
            if got == "TaskGroupAlreadyExists" and rm.spec.get("gname") is None:
                # an unnamed request: the name the pool generated for it collides with a live group
                w.fail(props | {"C10"}, "group/generated-name-collides-with-live-group", f"{rm.kind} raised {got}: {exc}")
            elif rm.spec.get("gname") is None and rm.kind != "start" and not isinstance(exc, self.L.exceptions.PoolException):
                # an unnamed request dies of an exception that is none of the library's own: no name could be generated for it
                w.fail(props | {"C10"}, "spawn/unnamed-request-failed-with-foreign-exception", f"{rm.kind} of {rm.spec.get('worker', {}).get('fname')!r} raised {got}: {exc}")
            else:
                w.fail(props, "spawn/rejected-without-cause", f"{rm.kind} raised {got}: {exc}")
        else:
            ok = got in must
            if not ok:
                # subclass relations of the documented errors
                for m in must:
                    cls = getattr(self.L.exceptions, m, None) or {"ValueError": ValueError}.get(m)
                    if cls is not None and isinstance(exc, cls):
                        ok = True
            if not ok:
                w.fail({"C09"}, "spawn/wrong-error", f"{rm.kind} raised {got}, applicable {sorted(must)}")
        after = self.snapshot(pm)
        if after != snap:
            w.fail({"C09"}, "spawn/rejected-left-trace", f"{rm.kind}/{got}: before {snap} after {after}")
        if rm.calls or rm.pulled > 0 or rm.iter_calls:
            w.fail({"C09"}, "spawn/rejected-touched-func-or-iterable", f"calls={len(rm.calls)} pulled={rm.pulled} iter()={rm.iter_calls}")
        if set(asyncio.all_tasks(w.loop)) - before:
            w.fail({"C09"}, "spawn/rejected-created-task", "")
        if rm.spec.get("gname") is None and rm.kind != "start":
            pass
        if pm.groups_live and (rm.spec.get("num", 1) > 0 or rm.spec.get("n", 0) > 0):
            w.label("rejected:with-live-groups")
        rm.rejected = got  # type: ignore[attr-defined]
        pm.rejected = getattr(pm, "rejected", 0) + 1  # type: ignore[attr-defined]
        # the rejected request must stay without effect for the rest of the run
        self.rejected_reqs.append(rm)

    rejected_reqs: List[ReqM]

    def op_bad_spawn(self, op: dict, ctx: dict) -> None:
        """Spawn request carrying one or more rejection causes of its own (non-coroutine function, num_concurrent < 1)."""
        w = self.w
        pm = self.pm_of(op)  # type: ignore[attr-defined]
        simple = pm.spec["cls"] == "SimpleTaskPool"
        if simple:
            # only locked/closed can reject start(); go through the normal path
            return self.op_spawn(op, ctx)  # type: ignore[attr-defined]
        rm = self.build_request(pm, op)  # type: ignore[attr-defined]
        causes: Set[str] = set()
        func = None
        bad = op.get("bad", [])
        if "func" in bad:
            calls = rm.calls

            def plain(*a: Any, **k: Any) -> None:
                calls.append("called")  # type: ignore[arg-type]
            import functools

            async def real(*a: Any, **k: Any) -> None:
                calls.append("called")  # type: ignore[arg-type]

            @functools.wraps(real)
            def wrapped(*a: Any, **k: Any) -> Any:     # a plain function around a coroutine function: not a coroutine function
                return real(*a, **k)
            async def agen(*a: Any, **k: Any) -> Any:     # an async generator function: calling it returns no coroutine
                calls.append("called")  # type: ignore[arg-type]
                yield 1

            class Callable_:
                def __call__(self, *a: Any, **k: Any) -> None:
                    calls.append("called")  # type: ignore[arg-type]
            which = op.get("func_kind", 0) % 9
            func = [plain, lambda *a, **k: calls.append("called"), functools.partial(plain, 1), len, wrapped, agen, functools.partial(agen, 1),
                    Callable_(), Callable_][which]  # type: ignore[list-item]
            causes.add("NotCoroutineFunction")
        if "nc" in bad and rm.kind != "apply":
            rm.spec["nc"] = [0, -1, -2, 0.5][op.get("nc_val", 0) % 4]      # anything below 1 is no number of concurrent tasks
            causes.add("ValueError")
        before = set(asyncio.all_tasks(w.loop))
        snap = self.snapshot(pm)
        expected = self.expected_rejection(pm, rm, causes)
        if expected["must"] and self.program.get("suppress_rejected"):  # type: ignore[attr-defined]
            w.label("twin:request-not-made")
            return
        try:
            name = self.call_spawn(pm, rm, func_override=func)  # type: ignore[attr-defined]
        except Exception as e:
            self.check_rejection(pm, rm, e, expected, snap, before)
            return
        if expected["must"]:
            w.fail({"C09"}, "spawn/accepted-but-must-reject", f"{rm.kind} accepted, expected one of {sorted(expected['must'])}")
            if func is not None:
                pm.confused = True
                return
        self.accept(pm, rm, name, before)  # type: ignore[attr-defined]

    def op_bad_pool(self, op: dict, ctx: dict) -> None:
        """Constructing a pool with a negative size must raise ValueError."""
        w, L = self.w, self.L
        n_before = len(L.BaseTaskPool._pools)
        v = [-1, -2, -3, -inf][op.get("v", 0) % 4]
        try:
            if op.get("simple"):
                async def f() -> None:
                    pass
                L.SimpleTaskPool(f, pool_size=v)
            else:
                L.TaskPool(pool_size=v)
        except ValueError:
            w.label("rejected:negative-size-ctor")
        except Exception as e:
            w.fail({"C09"}, "ctor/negative-size-wrong-error", type(e).__name__)
        else:
            w.fail({"C09", "C15"}, "ctor/negative-size-accepted", str(v))
        # the half-constructed pool may stay in the class-level list (it affects nothing but numbering)
        del L.BaseTaskPool._pools[n_before:]

    # ================================================================== cancel(ids) (C06)
    def model_states(self, pm: PoolM, tid: int) -> Set[str]:
        tm = pm.tasks.get(tid)
        if tm is None or pm.closed:
            return {"U"}
        if tm.forgotten:
            return {"U"}
        s: Set[str] = set()
        if tm.may_forget:
            s.add("U")
        if tm.started:
            if not tm.body_done:
                s.add("R")
            elif tm.ccb_running:
                s.add("C")
            else:
                s.add("E")
        else:
            if tm.ecb_n or tm.finished():
                s.add("E")
            elif tm.ccb_running:
                s.add("C")
            elif tm.cancel_req == 0:
                s.add("R")
            else:
                s |= {"R", "C", "E"}
        return s

    ERR = {"C": "AlreadyCancelled", "E": "AlreadyEnded", "U": "InvalidTaskID"}

    def op_cancel(self, op: dict, ctx: dict) -> None:
        w, X = self.w, self.L.exceptions
        pm = self.pm_of(op)  # type: ignore[attr-defined]
        me = ctx.get("task")
        # ["self", k]: the id of the task that makes the call (a worker or one of its callbacks); elsewhere like ["run", k]
        ids = [me.tid if (ref[0] == "self" and me is not None and me.pm is pm) else self.resolve_tid(pm, ["run", ref[1]] if ref[0] == "self" else ref)  # type: ignore[attr-defined]
               for ref in op.get("refs", [])]
        if me is not None and any(ref[0] == "self" for ref in op.get("refs", [])) and me.live:
            w.label("cancel:own-id-from-inside-the-worker")
        if me is not None and me.pm is pm and me.live and me.tid in ids and not ctx.get("suspends_later"):
            ids = [i for i in ids if i != me.tid]   # self-cancellation without a later suspension point: excluded (DESIGN 6)
        self.ops_seen.add("cancel")
        states = {tid: self.model_states(pm, tid) for tid in ids}
        kw = {}
        if op.get("msg"):
            kw["msg"] = "m"
        try:
            pm.pool.cancel(*ids, **kw)
        except (X.AlreadyCancelled, X.AlreadyEnded, X.InvalidTaskID) as e:
            got = "AlreadyCancelled" if isinstance(e, X.AlreadyCancelled) else "AlreadyEnded" if isinstance(e, X.AlreadyEnded) else "InvalidTaskID"
            allowed = {self.ERR[s] for st in states.values() for s in st if s != "R"}
            w.label("cancel:raised")
            if got not in allowed:
                w.fail({"C06"}, "cancel/wrong-or-unexpected-error", f"ids {ids} states {states} raised {got}")
            # all-or-nothing: nothing is requested; strays show up through the delivery accounting
            nonrun = [t for t, st in states.items() if "R" not in st]
            run = [t for t, st in states.items() if st == {"R"}]
            if nonrun and run:
                w.label("cancel:mixed-ids")
            return
        except Exception as e:
            w.fail({"C06"}, "cancel/foreign-exception", f"{type(e).__name__}: {e}")
            return
        bad = [t for t, st in states.items() if "R" not in st]
        if bad:
            w.fail({"C06"}, "cancel/no-error-for-non-running-id", f"ids {ids} states {states}")
        w.label("cancel:ok")
        if len(set(ids)) >= 2:
            w.label("cancel:multi")
        for tid in set(ids):
            tm = pm.tasks.get(tid)
            if tm is None:
                continue
            if "R" in states[tid]:
                if not tm.started:
                    w.label("cancel:before-first-step")
                self.request_cancel(tm)
                if tm.req is not None:
                    tm.req.single_cancels += 1
        self.untouched_by(pm, {"C06"}, "cancel", f"ids {ids}")

    def untouched_by(self, pm: PoolM, props: Set[str], what: str, detail: str) -> None:
        """Exactness of an operation on single tasks: no group is forgotten, no request's spawner is cancelled."""
        w = self.w
        for name, rm in pm.groups_live.items():
            try:
                pm.pool.get_group_ids(name)
            except Exception as e:
                w.fail(props, what + "/forgot-a-group", f"{detail}: {name}: {type(e).__name__}")
                break
        for rm in pm.reqs:
            sp = rm.spawner
            if sp is not None and not sp.done() and not rm.cancelled and sp.cancelling():
                w.fail(props, what + "/cancelled-a-spawner", f"{detail}: r{rm.rid}({rm.kind})")
                break

    def request_cancel(self, tm: TaskM) -> None:
        tm.request_cancel()
        if tm.in_aflush:
            # the task is suspended in `await pool.flush()`: cancelling it makes asyncio.gather cancel what flush awaits
            pm = tm.pm
            pm.fault_seen = True
            self.w.label("cancel:of-a-worker-inside-flush")
            for o in pm.tasks.values():
                if o is not tm and not o.finished() and not o.forgotten and (o.in_cb or o.body_done or not o.started):
                    o.stray_ok = True
                    o.disturbed = True

    # ================================================================== group / global cancellation (C07)
    def model_cancel_request(self, pm: PoolM, rm: ReqM) -> None:
        w = self.w
        rm.cancelled = True
        rm.cancel_op = w.opno
        rm.group_forgotten = True
        rm.pulled_at_cancel = rm.pulled
        rm.calls_at_cancel = len(rm.calls)
        rm.n_wstart_at_cancel = sum(1 for c in rm.calls if c.task is not None)
        if self.req_active(rm) or (rm.spawner is not None and not rm.spawner.done()):  # type: ignore[attr-defined]
            w.label("group-cancel:spawner-had-work-left")
            if rm.spawner is not None and rm.spawner.done() is False and not rm.calls and rm.pulled <= 0:
                w.label("group-cancel:before-spawner-ran")
        for tid in list(rm.tids):
            tm = pm.tasks.get(tid)
            if tm is None:
                continue
            st = self.model_states(pm, tid)
            if "R" in st:
                if not tm.started:
                    w.label("group-cancel:task-before-first-step")
                self.request_cancel(tm)

    def op_cancel_group(self, op: dict, ctx: dict) -> None:
        w, X = self.w, self.L.exceptions
        pm = self.pm_of(op)  # type: ignore[attr-defined]
        name = self.resolve_group(pm, op.get("ref", ["live", 0]), ctx)  # type: ignore[attr-defined]
        rm = pm.groups_live.get(name)
        if rm is not None and (rm.in_pull or rm.in_call):
            return  # re-entrant cancellation from the group's own iterator / func call: excluded by the statement
        if rm is not None and ctx.get("task") is not None and ctx["task"].req is rm and ctx["task"].live and not ctx.get("suspends_later"):
            return  # would cancel the calling task itself with no later suspension point (DESIGN 6)
        self.ops_seen.add("cancel_group")
        if rm is not None:
            self.sync_groups(pm)
        snap = self.snapshot(pm) if rm is None else None
        kw = {"msg": "m"} if op.get("msg") else {}
        try:
            pm.pool.cancel_group(name, **kw)
        except X.InvalidGroupName as e:
            if rm is not None:
                w.fail({"C07", "C10"}, "cancel_group/live-group-unknown", name)
                return
            w.label("cancel_group:unknown")
            if self.snapshot(pm) != snap:
                w.fail({"C07"}, "cancel_group/unknown-name-changed-state", name)
            return
        except Exception as e:
            w.fail({"C07"}, "cancel_group/foreign-exception", f"{type(e).__name__}: {e}")
            return
        if rm is None:
            w.fail({"C07", "C10"}, "cancel_group/unknown-name-accepted", name)
            return
        w.label("cancel_group:ok")
        if ctx.get("where") in ("worker", "ccb", "ecb"):
            w.label("cancel_group:from-" + ("own-group" if (ctx.get("task") is not None and ctx["task"].req is rm) else "other-group"))
        others = [r for r in pm.groups_live.values() if r is not rm and (self.req_active(r) or any(pm.tasks[t].live for t in r.tids if t in pm.tasks))]  # type: ignore[attr-defined]
        if others and (self.req_active(rm)):  # type: ignore[attr-defined]
            w.label("group-cancel:sibling-had-work-pending")
        self.model_cancel_request(pm, rm)
        del pm.groups_live[name]
        try:
            pm.pool.get_group_ids(name)
        except X.InvalidGroupName:
            pass
        else:
            w.fail({"C07"}, "cancel_group/group-not-forgotten", name)

    def op_cancel_all(self, op: dict, ctx: dict) -> None:
        w, X = self.w, self.L.exceptions
        pm = self.pm_of(op)  # type: ignore[attr-defined]
        if any(r.in_pull or r.in_call for r in pm.groups_live.values()):
            return  # re-entrant from an argument iterator / func call of one of the groups it would cancel
        if ctx.get("task") is not None and ctx["task"].pm is pm and ctx["task"].live and not ctx.get("suspends_later"):
            return
        self.ops_seen.add("cancel_all")
        self.sync_groups(pm)
        kw = {"msg": "m"} if op.get("msg") else {}
        try:
            pm.pool.cancel_all(**kw)
        except Exception as e:
            w.fail({"C07"}, "cancel_all/exception", f"{type(e).__name__}: {e}")
            return
        w.label("cancel_all:ok")
        for name, rm in list(pm.groups_live.items()):
            self.model_cancel_request(pm, rm)
            del pm.groups_live[name]
            try:
                pm.pool.get_group_ids(name)
            except X.InvalidGroupName:
                pass
            else:
                w.fail({"C07"}, "cancel_all/group-not-forgotten", name)

    # ================================================================== SimpleTaskPool.stop (C14)
    def op_stop(self, op: dict, ctx: dict) -> None:
        w = self.w
        pm = self.pm_of(op)  # type: ignore[attr-defined]
        if pm.spec["cls"] != "SimpleTaskPool":
            return
        me = ctx.get("task")
        if me is not None and me.pm is pm and me.live and not ctx.get("suspends_later"):
            return
        self.ops_seen.add("stop")
        self.sync_groups(pm)
        running = [t for t in sorted(pm.tasks.values(), key=lambda t: t.tid) if "R" in self.model_states(pm, t.tid)]
        certain = all(self.model_states(pm, t.tid) == {"R"} for t in running)
        R = len(running)
        if op.get("all"):
            n = None
            want = [t.tid for t in reversed(running)]
        else:
            n = op.get("n", 1)
            if n == "inf":
                n = inf
            if op.get("rel") is not None:
                n = R + op["rel"]
            k = min(max(n, 0), R)
            want = [t.tid for t in reversed(running)][:k]
        try:
            got = pm.pool.stop_all() if n is None else pm.pool.stop(n)
        except Exception as e:
            w.fail({"C14"}, "stop/exception", f"n={n} R={R}: {type(e).__name__}: {e}")
            return
        w.label("stop:ok")
        if certain:
            if list(got) != want:
                w.fail({"C14"}, "stop/wrong-ids", f"n={n} running={[t.tid for t in running]} returned {list(got)} expected {want}")
            gaps = R >= 2 and any(b.tid - a.tid > 1 for a, b in zip(running, running[1:]))
            if R >= 3 and gaps and n is not None and 0 < n < R:
                w.label("stop:lifo-with-gaps")
            if n is not None and n <= 0:
                w.label("stop:nonpositive")
            if n is not None and n > R:
                w.label("stop:more-than-running")
        else:
            w.label("stop:uncertain-model")
        for tid in got:
            tm = pm.tasks.get(tid)
            if tm is not None and "R" in self.model_states(pm, tid):
                self.request_cancel(tm)
            elif tm is None or not certain:
                pass
            else:
                w.fail({"C14"}, "stop/returned-non-running-id", f"{tid}")
        # exact: nothing but the returned tasks is touched
        self.untouched_by(pm, {"C14"}, "stop", f"n={n} R={R} returned {list(got)}")

    # ================================================================== pool_size (C15)
    def op_set_size(self, op: dict, ctx: dict) -> None:
        w = self.w
        pm = self.pm_of(op)  # type: ignore[attr-defined]
        pool = pm.pool
        v = op.get("v", 1)
        v = inf if v is None else -inf if v == "-inf" else v
        self.ops_seen.add("set_size")
        occupied = sum(1 for t in pm.tasks.values() if not t.finished() and not t.forgotten and (t.live or not t.started or t.ccb_running or (t.body_done and not t.ecb_n and not t.finished())))
        occupied += pool.num_running + pool.num_cancelled
        # a spawner that is still alive (even a cancelled one) may hold, or have been handed, a slot
        waiting = sum(1 for r in pm.reqs if self.req_active(r) or (r.spawner is not None and not r.spawner.done()))  # type: ignore[attr-defined]
        if v < 0:
            snap = self.snapshot(pm)
            try:
                pool.pool_size = v
            except ValueError:
                w.label("set_size:negative-rejected")
                if self.snapshot(pm) != snap:
                    w.fail({"C15", "C09"}, "pool_size/negative-changed-state", f"{snap} -> {self.snapshot(pm)}")
            except Exception as e:
                w.fail({"C15", "C09"}, "pool_size/negative-wrong-error", type(e).__name__)
            else:
                w.fail({"C15", "C09"}, "pool_size/negative-accepted", str(v))
                pm.size_dirty = True
            return
        if (occupied or waiting) and "D4" in self.guards:   # type: ignore[attr-defined]
            w.count("excluded_by_guard:D4")
            return
        try:
            pool.pool_size = v
        except Exception as e:
            w.fail({"C15"}, "pool_size/assignment-raised", f"{v}: {type(e).__name__}")
            return
        pm.size_assigned = True
        old = pm.size
        pm.size = v
        pm.size_change_op = w.opno  # type: ignore[attr-defined]
        pm.live_at_assign = len(pm.live_tasks())  # type: ignore[attr-defined]
        w.label("set_size:ok")
        if occupied or waiting:
            pm.size_dirty = True
            w.label("set_size:occupied")
            if v > old and waiting:
                w.label("set_size:raise-with-waiters")
            if v < old:
                w.label("set_size:lower-while-running")
        else:
            w.label("set_size:unoccupied")

    def op_abandon_uc(self, op: dict, ctx: dict) -> None:
        """Somebody who waits in until_closed() gives up (is cancelled): nobody else's business."""
        live = [a for a in self.uc_actors if not a.done()]  # type: ignore[attr-defined]
        if not live or ctx.get("task") is not None:
            return
        a = live[op.get("k", 0) % len(live)]
        a.vt_abandoned = True  # type: ignore[attr-defined]
        a.cancel()
        self.w.label("abandon:until_closed-waiter-cancelled")
        if len(live) >= 2:
            self.w.label("abandon:until_closed-waiter-cancelled-while-another-waits")

    def op_abandon(self, op: dict, ctx: dict) -> None:
        """The caller of a blocked flush() is cancelled. asyncio.gather then cancels what flush was awaiting: tasks that sit
        in their callbacks are disturbed by the *user's* cancellation; their callbacks are not owed any more, capacity is."""
        w = self.w
        live = [a for a in self.flush_actors if not a.done()]
        if not live or ctx.get("task") is not None:
            return
        a = live[op.get("k", 0) % len(live)]
        pm = getattr(a, "vt_pm", None)
        a.vt_abandoned = True  # type: ignore[attr-defined]
        if pm is not None:
            for tm in pm.tasks.values():
                if not tm.finished() and not tm.forgotten and (tm.in_cb or tm.body_done or not tm.started):
                    tm.stray_ok = True
                    tm.disturbed = True  # type: ignore[attr-defined]
        if pm is not None:
            pm.fault_seen = True      # from here on a pending gather_and_close may legitimately raise CancelledError (a disturbed task)
        a.cancel()
        w.label("abandon:flush-caller-cancelled")

    # ================================================================== flush (C13) / gather_and_close (C08) / until_closed
    def flush_snapshot(self, pm: PoolM):
        must, may = [], []
        for tm in pm.tasks.values():
            if tm.forgotten:
                continue
            st = self.model_states(pm, tm.tid)
            if "R" not in st:
                # finished *before* the call only if the task is completely done; still-in-callback tasks are awaited by flush
                must.append(tm)
            elif st != {"R"}:
                may.append(tm)
        return must, may

    async def actor_flush(self, op: dict, inline: bool = False) -> None:
        """`inline`: awaited by a pool worker itself; a cancellation of that worker is passed on after the bookkeeping."""
        w, X = self.w, self.L.exceptions
        pm = self.pm_of(op)  # type: ignore[attr-defined]
        re_ = bool(op.get("re"))
        self.ops_seen.add("flush")
        must, may = self.flush_snapshot(pm)
        before_running = [t for t in pm.tasks.values() if self.model_states(pm, t.tid) == {"R"}]
        incb = [t for t in must if t.in_cb]
        if incb:
            w.label("flush:overlaps-callback")
        failed_before = [t for t in must if t.finished() and not t.atask.cancelled() and t.atask.exception() is not None]
        # spawners that died of an exception of the user's function / iterable and have not been through a flush or close yet
        dead_spawners = [r for r in pm.reqs if r.spawner is not None and r.spawner.done() and not r.spawner.cancelled()
                         and r.spawner.exception() is not None and self.is_injected(pm, r.spawner.exception()) and not getattr(r, "meta_exc_seen", False)]
        if getattr(pm, "close_active", 0) or self.flushes_active >= 1:
            # a gather_and_close() or another flush() in progress takes meta tasks itself (a flush empties the set of cancelled meta
            # tasks when its first gather is over - including what a cancel_all() moved there meanwhile)
            dead_spawners = []
        for r in pm.reqs:
            if r.spawner is not None and r.spawner.done():
                r.meta_exc_seen = True  # type: ignore[attr-defined]   (this flush pops them at once; a later one finds nothing)
        epoch = self.forget_epoch
        me = asyncio.current_task()
        if not inline:
            self.flush_actors.append(me)      # candidates for `abandon` (a pool worker awaiting flush is cancelled through the pool)
        self.flushes_active += 1
        if self.flushes_active >= 2:
            w.label("flush:overlapping-flushes")
        start_op = w.opno
        kw = {"return_exceptions": True} if re_ else ({} if op.get("default_re") else {"return_exceptions": False})
        raised: Optional[BaseException] = None
        try:
            await pm.pool.flush(**kw)
        except asyncio.CancelledError:
            if w.teardown:
                raise
            raised = asyncio.CancelledError()
            if inline:
                # the awaiting worker was cancelled: what flush did or did not forget is open; the cancellation goes on
                self.flushes_active -= 1
                self.forget_epoch += 1
                for tm in pm.tasks.values():
                    if not tm.forgotten and tm.finished():
                        tm.may_forget = True
                self.resolve_forgotten(pm)
                self.flushes_active += 1     # undone by the finally below
                raise
        except CaseTimeout:
            raise
        except BaseException as e:
            raised = e
        finally:
            self.flushes_active -= 1
            for r in pm.reqs:
                if r.spawner is not None and r.spawner.done():
                    r.meta_exc_seen = True  # type: ignore[attr-defined]   (its clear() may have taken what a cancel_all() moved meanwhile)
        if w.teardown:
            return
        if self.forget_epoch != epoch:
            failed_before = []      # another flush / close finished meanwhile and may have taken the failed task away first
            dead_spawners = []

        self.forget_epoch += 1
        if getattr(me, "vt_abandoned", False):
            # the caller gave up waiting (it was cancelled): whatever flush did or did not forget is open, nothing is owed
            w.label("flush:abandoned-by-caller")
            for tm in pm.tasks.values():
                if not tm.forgotten and tm.finished():
                    tm.may_forget = True
            self.resolve_forgotten(pm)
            return
        w.ev(f"flush returned raised={raised!r}")
        suspended = w.opno > start_op + 1
        if suspended:
            w.label("flush:was-suspended")
            if any(t.body_done or t.cancels_seen for t in before_running):
                w.label("flush:state-changed-meanwhile")
        if raised is not None:
            w.label("flush:raised")
            if re_:
                w.fail({"C13", "C12"}, "flush/raised-with-return_exceptions", repr(raised))
            elif not self.is_injected(pm, raised):
                w.fail({"C12", "C13"}, "flush/raised-foreign-exception", repr(raised))
            for tm in must + may:
                if tm.finished():
                    tm.may_forget = True      # a raising flush may or may not have forgotten what had finished
            self.resolve_forgotten(pm)
            return
        if failed_before and not re_:
            w.fail({"C12"}, "flush/swallowed-a-task-exception", f"{pm.name}#{failed_before[0].tid} had failed with {failed_before[0].atask.exception()!r}")
        if dead_spawners and not re_:
            w.fail({"C12"}, "flush/swallowed-a-spawner-exception", f"r{dead_spawners[0].rid}({dead_spawners[0].kind}) had died of {dead_spawners[0].spawner.exception()!r}")
        # returned normally: everything finished before the call must be forgotten
        for tm in must:
            tm.may_forget = True
        for tm in may:
            tm.may_forget = True
        for tm in pm.tasks.values():
            if not tm.forgotten and tm not in must and tm.finished():
                tm.may_forget = True       # finished during the flush: either
        for tm in must:
            got = self.probe_state(pm, tm)
            if got != "U":
                # (C03: the three counters then sum to more than "tasks created minus tasks forgotten")
                w.fail({"C13", "C03"}, "flush/finished-task-still-remembered", f"{pm.name}#{tm.tid} cancel(id) says {got}")
            else:
                tm.forgotten = True
        self.resolve_forgotten(pm)
        for tm in before_running:
            if tm.live and tm.reg is not None:
                pass
        w.label("flush:returned")

    def probe_state(self, pm: PoolM, tm: TaskM) -> str:
        """Public probe: only used on ids the model knows are not running (it would cancel a running one)."""
        X = self.L.exceptions
        try:
            pm.pool.cancel(tm.tid)
        except X.AlreadyCancelled:
            return "C"
        except X.AlreadyEnded:
            return "E"
        except X.InvalidTaskID:
            return "U"
        except Exception as e:
            return "X:" + type(e).__name__
        tm.stray_ok = True
        return "R"

    def resolve_forgotten(self, pm: PoolM) -> None:
        for tm in pm.tasks.values():
            if tm.may_forget and not tm.forgotten and "R" not in self.model_states(pm, tm.tid) - {"U"}:
                st = self.model_states(pm, tm.tid)
                if st <= {"E", "U", "C"}:
                    got = self.probe_state(pm, tm)
                    if got == "U":
                        tm.forgotten = True
                    tm.may_forget = False if got in ("C", "E", "U") else tm.may_forget

    def is_injected(self, pm: PoolM, exc: BaseException) -> bool:
        if any(exc is x for x in pm.injected):
            return True
        # a task that was cancelled by the *user* (abandoned flush caller) is in the cancelled state; gathering it without
        # return_exceptions raises CancelledError - asyncio's doing, and the user's
        if isinstance(exc, asyncio.CancelledError) and any(getattr(t, "disturbed", False) for t in pm.tasks.values()):
            return True
        # a user function that returned a non-coroutine makes the library raise its documented NotCoroutine out of the spawner
        return type(exc).__name__ == "NotCoroutine" and any(getattr(r, "bad_return", None) is not None for r in pm.reqs)

    async def actor_close(self, op: dict) -> None:
        w, X = self.w, self.L.exceptions
        pm = self.pm_of(op)  # type: ignore[attr-defined]
        re_ = bool(op.get("re"))
        self.ops_seen.add("close")
        first = not pm.closing and not pm.closed
        if first:
            pm.closing = True
            pm.close_calls += 1
            self.mark_disturbed(pm)  # type: ignore[attr-defined]
            pending = [r for r in pm.reqs if self.req_active(r)]  # type: ignore[attr-defined]
            if pending:
                w.label("close:spawner-had-work-left")
                if pm.live_tasks():
                    w.label("close:spawner-work-left-and-task-running")
            if any(r.cancelled and r.spawner is not None and not r.spawner.done() for r in pm.reqs):
                w.label("close:with-just-cancelled-spawner")
            if pm.any_cb():
                w.label("close:task-mid-callback")
        pre_reqs = [r for r in pm.reqs if r.accepted]
        kw = {"return_exceptions": True} if re_ else {}
        raised: Optional[BaseException] = None
        pm.close_active = getattr(pm, "close_active", 0) + 1  # type: ignore[attr-defined]
        for r in pm.reqs:
            if r.spawner is not None and r.spawner.done():
                r.meta_exc_seen = True  # type: ignore[attr-defined]   (gather_and_close awaits the meta tasks itself)
        try:
            await pm.pool.gather_and_close(**kw)
        except asyncio.CancelledError:
            if w.teardown:
                raise
            raised = asyncio.CancelledError()
        except CaseTimeout:
            raise
        except BaseException as e:
            raised = e
        finally:
            pm.close_active -= 1  # type: ignore[attr-defined]
            for r in pm.reqs:
                if r.spawner is not None and r.spawner.done():
                    r.meta_exc_seen = True  # type: ignore[attr-defined]   (... including those that ended while it waited)
        if w.teardown:
            return
        self.forget_epoch += 1
        w.ev(f"gather_and_close returned raised={raised!r}")
        if raised is not None:
            w.label("close:raised")
            if re_:
                w.fail({"C08", "C12"}, "close/raised-with-return_exceptions", repr(raised))
            elif not self.is_injected(pm, raised):
                props = {"C12"} if pm.fault_seen else {"C08", "C12"}
                w.fail(props, "close/raised-foreign-exception", repr(raised))
            elif not pm.fault_seen:
                w.fail({"C08"}, "close/raised-without-fault", repr(raised))
            if self.is_injected(pm, raised):
                pm.close_failed = True  # type: ignore[attr-defined]   (legitimately not closed: completeness is not owed)
                if pm.close_active == 0 and not pm.closed:  # type: ignore[attr-defined]
                    # the call is over and has not closed the pool: what remains of it is its lock(), which unlock() undoes (C09)
                    pm.closing = False
                    pm.locked = True
                    w.label("close:failed-pool-stays-locked")
            return
        # returned normally: snapshot of the world in this very step
        w.label("close:returned")
        if not re_:
            bad = [t for t in pm.tasks.values() if not t.forgotten and t.finished() and not t.atask.cancelled() and t.atask.exception() is not None]
            if bad:
                w.fail({"C12"}, "close/swallowed-a-task-exception", f"{pm.name}#{bad[0].tid} had failed with {bad[0].atask.exception()!r}")
        for r in pre_reqs:
            if r.cancelled or getattr(r, "iter_failed", None) is not None or getattr(r, "bad_return", None) is not None or getattr(r, "call_fatal", None) is not None:
                continue        # cancelled, or ended by a fault of the user's own iterable / function: nothing more is owed
            missing = r.expected_calls - self.accounted(pm, r) if (r.kind in ("apply", "start") or r.pulled >= 0) else 0
            if r.kind not in ("apply", "start") and r.pulled >= 0 and not r.exhausted:
                w.fail({"C08"}, "close/returned-before-iterable-consumed", f"r{r.rid} pulled {r.pulled}/{r.expected_calls}")
            elif missing > 0:
                w.fail({"C08", "C04"}, "close/returned-before-all-invocations", f"r{r.rid} invocations {self.accounted(pm, r)}/{r.expected_calls}")
        for tm in pm.tasks.values():
            if tm.live:
                w.fail({"C08"}, "close/returned-while-worker-live", f"{pm.name}#{tm.tid}")
            elif tm.in_cb:
                w.fail({"C08"}, "close/returned-while-callback-running", f"{pm.name}#{tm.tid}")
            elif tm.atask is not None and not tm.atask.done():
                w.fail({"C08"}, "close/returned-while-task-unfinished", f"{pm.name}#{tm.tid}")
        pool = pm.pool
        c = (pool.num_running, pool.num_cancelled, pool.num_ended)
        if c != (0, 0, 0):
            w.fail({"C08"}, "close/pool-still-holds-tasks", str(c))
        pm.closed = True
        pm.locked = True
        for tm in pm.tasks.values():
            tm.forgotten = True
        self.post_close_probe(pm)
        for fut, was_done_before in pm.until_closed_waiters:
            pass

    def post_close_probe(self, pm: PoolM) -> None:
        """Closed for good: every spawning method must raise PoolIsClosed and leave no trace."""
        w, X = self.w, self.L.exceptions
        pool = pm.pool
        called: List[int] = []

        async def never(*a: Any, **k: Any) -> None:
            called.append(1)

        before = (pool.num_running, pool.num_cancelled, pool.num_ended, len(asyncio.all_tasks(w.loop)))
        if pm.spec["cls"] == "SimpleTaskPool":
            attempts = [("start", lambda: pool.start(1))]
        else:
            attempts = [("apply", lambda: pool.apply(never, num=2)), ("map", lambda: pool.map(never, iter([1, 2]))),
                        ("starmap", lambda: pool.starmap(never, [(1,)], num_concurrent=2)),
                        ("doublestarmap", lambda: pool.doublestarmap(never, [{"a": 1}]))]
        for name, fn in attempts:
            try:
                fn()
            except X.PoolIsClosed:
                continue
            except Exception as e:
                w.fail({"C08", "C09"}, "close/spawn-after-close-wrong-error", f"{name}: {type(e).__name__}")
            else:
                w.fail({"C08", "C09"}, "close/spawn-accepted-after-close", name)
                pm.confused = True
        after = (pool.num_running, pool.num_cancelled, pool.num_ended, len(asyncio.all_tasks(w.loop)))
        if after != before or called:
            w.fail({"C08", "C09"}, "close/spawn-after-close-left-trace", f"{before} -> {after}")
        w.label("close:spawn-rejected-afterwards")

    async def actor_until_closed(self, op: dict) -> None:
        w = self.w
        pm = self.pm_of(op)  # type: ignore[attr-defined]
        was_closed = pm.closed
        me = asyncio.current_task()
        self.uc_actors.append(me)  # type: ignore[attr-defined]
        try:
            r = await pm.pool.until_closed()
        except asyncio.CancelledError:
            if not w.teardown and not getattr(me, "vt_abandoned", False):
                # nobody cancelled *this* waiter: somebody else's giving up reached it
                w.fail({"C08"}, "until_closed/waiter-cancelled-by-somebody-else", pm.name)
                return
            raise
        except CaseTimeout:
            raise
        except BaseException as e:
            w.fail({"C08"}, "until_closed/raised", repr(e))
            return
        if w.teardown:
            return
        w.label("until_closed:released")
        if not pm.closed:
            # released before gather_and_close returned (the closing actor sets pm.closed in the step it returns in)
            w.fail({"C08"}, "until_closed/released-before-close", "")
        if r is not True:
            w.fail({"C08"}, "until_closed/result", repr(r))
        if not was_closed:
            w.label("until_closed:waited")

    # ================================================================== invariants at every observation point
    def install_checks(self) -> None:
        self.rejected_reqs = []
        self.w.checks.append(self.scan)
        self.w.checks.append(self.always)
        self.w.idle_checks.append(self.at_idle)

    def sync_groups(self, pm: PoolM) -> None:
        """Attribute task ids to requests through the public group view."""
        w, X = self.w, self.L.exceptions
        for name, rm in pm.groups_live.items():
            try:
                ids = pm.pool.get_group_ids(name)
            except X.InvalidGroupName:
                if not getattr(rm, "unknown_reported", False):
                    rm.unknown_reported = True  # type: ignore[attr-defined]
                    w.fail({"C10", "C07"}, "group/live-group-unknown", name)
                continue
            except Exception as e:
                w.fail({"C10"}, "group/get_group_ids-raised", f"{name}: {type(e).__name__}")
                continue
            known = set(rm.tids)
            if not isinstance(ids, (set, frozenset)):
                w.fail({"C10"}, "group/get_group_ids-not-a-set", repr(type(ids)))
                ids = set(ids)
            new = sorted(ids - known)
            for tid in new:
                rm.tids.append(tid)
                tm = w.get_task(pm, tid)
                if tm.req is None:
                    tm.req = rm
                elif tm.req is not rm:
                    w.fail({"C10"}, "group/id-in-two-groups", f"{pm.name}#{tid} in r{tm.req.rid} and r{rm.rid}")
            gone = known - ids
            if gone and not getattr(rm, "gone_reported", False):
                rm.gone_reported = True  # type: ignore[attr-defined]
                w.fail({"C10"}, "group/id-disappeared-from-live-group", f"{name}: {sorted(gone)}")

    def scan(self, where: str) -> None:
        w = self.w
        if self.scan_all_tasks:
            for t in asyncio.all_tasks(w.loop):
                ident = w.pool_of_name(t.get_name())
                if ident is None:
                    continue
                pm, tid = ident
                tm = w.get_task(pm, tid)
                if tm.atask is None:
                    tm.atask = t
                elif tm.atask is not t:
                    w.fail({"C11"}, "id/two-tasks-one-name", t.get_name())
        for pm in w.pools:
            pool = pm.pool
            R = getattr(pool, "_tasks_running", None)
            C = getattr(pool, "_tasks_cancelled", None)
            E = getattr(pool, "_tasks_ended", None)
            if R is None or C is None or E is None:
                w.count("peek-missing")
                self.scan_all_tasks = True
                self.sync_groups(pm)
                continue
            for reg in (R, C, E):
                for tid, t in reg.items():
                    tm = pm.tasks.get(tid)
                    if tm is None:
                        tm = w.get_task(pm, tid)
                    if tm.atask is None:
                        if isinstance(t, asyncio.Task):
                            tm.atask = t
                    elif tm.atask is not t and isinstance(t, asyncio.Task):
                        w.fail({"C11", "C02"}, "id/two-tasks-one-id", f"{pm.name}#{tid}")
            self.sync_groups(pm)
            for tm in pm.tasks.values():
                tid = tm.tid
                a, b, c = tid in R, tid in C, tid in E
                n = a + b + c
                if n > 1:
                    w.fail({"C03"}, "reg/not-disjoint", f"{pm.name}#{tid} R={a} C={b} E={c}")
                new = "R" if a else "C" if b else "E" if c else None
                old = tm.reg
                if new != old:
                    if not tm.reg_seen:
                        tm.reg_seen = new is not None
                    elif new is None:
                        if not (tm.may_forget or tm.forgotten or pm.closed or self.closing_now(pm)):
                            props = {"C03", "C13", "C02"} | ({"C08"} if pm.closing else set())
                            w.fail(props, "reg/task-vanished", f"{pm.name}#{tid} was {old} ({where})")
                            # the model does NOT adopt the loss: the task keeps the state the harness events give it, so
                            # the answers of cancel()/stop() about it are judged against what should have been
                        else:
                            tm.forgotten = True
                    elif (old, new) not in (("R", "C"), ("R", "E"), ("C", "E")):
                        w.fail({"C03"}, "reg/illegal-transition", f"{pm.name}#{tid} {old}->{new}")
                    tm.reg = new
                if tm.forgotten and new is not None and not getattr(tm, "resurrect_reported", False):
                    if old is None and tm.reg_seen and new is not None and (old, new) != (None, new):
                        pass
                if new is None and tm.reg_seen:
                    continue
                if tm.live and new != "R" and where != "wend":
                    w.fail({"C03"}, "reg/live-worker-not-running", f"{pm.name}#{tid} is {new}")
                if tm.ccb_running and new != "C":
                    w.fail({"C03"}, "reg/in-cancel-callback-not-cancelled", f"{pm.name}#{tid} is {new}")
                if tm.ecb_running and new != "E":
                    w.fail({"C03"}, "reg/in-end-callback-not-ended", f"{pm.name}#{tid} is {new}")

    def closing_now(self, pm: PoolM) -> bool:
        return pm.closing and not pm.closed and False

    def stray_props(self) -> Set[str]:
        props = {CANCEL_PROPS[o] for o in self.ops_seen if o in CANCEL_PROPS}
        return props or {"C02"}

    def always(self, where: str) -> None:
        w = self.w
        for pm in w.pools:
            pool = pm.pool
            live = 0
            known = forgotten = 0
            lo = 0
            for tm in pm.tasks.values():
                if tm.live:
                    live += 1
                if tm.cancels_seen > tm.deliv_expected and not tm.stray_ok:
                    tm.stray_ok = True
                    w.fail(self.stray_props(), "cancel/stray-cancellation",
                           f"{pm.name}#{tm.tid} observed {tm.cancels_seen} cancellations, {tm.deliv_expected} requested")
                if tm.started and not tm.forgotten and not tm.may_forget:
                    lo += 1
            nr, ncn, ne = pool.num_running, pool.num_cancelled, pool.num_ended
            if not pm.size_dirty:
                # (a size assigned while the pool was unoccupied is as good as a constructor value; assignments with slots in use are
                #  the territory of C15 and its open finding)
                P = {"C01", "C15"} if pm.size_assigned else {"C01"}
                if live > pm.size:
                    w.fail(P, "size/live-workers-exceed-size", f"{pm.name}: {live} > {pm.size}")
                if nr > pm.size:
                    w.fail(P, "size/num_running-exceeds-size", f"{pm.name}: {nr} > {pm.size}")
                if pm.size == inf and pool.is_full:
                    w.fail(P, "size/unbounded-pool-is-full", pm.name)
                if live == pm.size and pm.size not in (0, inf) and any(self.req_active(r) for r in pm.reqs):  # type: ignore[attr-defined]
                    w.label("pool-full-with-spawner-waiting")
                    pm.was_full_waiting = True  # type: ignore[attr-defined]
            elif not pm.size_dirty:
                # reassigned only while unoccupied: the new limit is simply in force
                if live > pm.size:
                    w.fail({"C15", "C01"}, "size/live-workers-exceed-assigned-size", f"{pm.name}: {live} > {pm.size}")
            else:
                # reassigned while occupied: nothing created after the assignment may start while the limit is reached
                if where == "wstart" and live > pm.size:
                    newest = max((t for t in pm.tasks.values() if t.live), key=lambda t: t.start_seq)
                    if newest.created_op > getattr(pm, "size_change_op", 0) + 1:
                        w.fail({"C15"}, "pool_size/admitted-beyond-assigned-limit",
                               f"{pm.name}: task {newest.tid} started as number {live}, limit {pm.size}")
            if nr < live:
                w.fail({"C03", "C02"}, "count/num_running-below-live-workers", f"{pm.name}: {nr} < {live}")
            if not pm.closed:
                total = nr + ncn + ne
                hi = sum(len(r.ok_calls()) for r in pm.reqs) - sum(1 for t in pm.tasks.values() if t.forgotten and False)
                if total < lo and not self.flushes_active and not pm.closing:
                    w.fail({"C03"}, "count/sum-below-known-tasks", f"{pm.name}: {nr}+{ncn}+{ne} < {lo}")
            # C15: the getter
            if not pm.size_dirty:
                ps = pool.pool_size
                # slots can be in use by running tasks, tasks in their cancel callback, or handed to a spawner that has
                # not resumed yet; "unoccupied" is only claimed when none of that can be the case
                occupied = nr + ncn
                if not occupied and any(self.req_active(r) or (r.spawner is not None and not r.spawner.done()) for r in pm.reqs):  # type: ignore[attr-defined]
                    occupied = 1
                if occupied == 0 and ps != pm.size:
                    w.fail({"C15"}, "pool_size/read-on-unoccupied-pool", f"{pm.name}: {ps} != {pm.size}")
                elif occupied and ps != pm.size:
                    if "D4" in self.guards:  # type: ignore[attr-defined]
                        w.count("known:D4-getter-occupied")
                    else:
                        w.fail({"C15"}, "pool_size/getter-occupied", f"{pm.name}: reads {ps}, configured {pm.size}, {occupied} occupied")
            # C05: per-call concurrency and laziness
            for rm in pm.reqs:
                if rm.kind in ("apply", "start"):
                    continue
                lr = sum(1 for tid in rm.tids if tid in pm.tasks and pm.tasks[tid].live)
                if lr > rm.nc:
                    w.fail({"C05"}, "map/more-than-num_concurrent-live", f"r{rm.rid}: {lr} > {rm.nc}")
                if rm.pulled >= 0 and not rm.cancelled:
                    skipped = sum(1 for c in rm.calls if c.raised)
                    tasked = len(rm.tids)
                    if rm.pulled > tasked + skipped + 1:
                        w.fail({"C05"}, "map/pulled-too-far-ahead", f"r{rm.rid}: pulled {rm.pulled}, tasks {tasked}, skipped {skipped}")
                if rm.cancelled and rm.pulled >= 0 and rm.pulled > rm.pulled_at_cancel:
                    if not getattr(rm, "pull_after_cancel_reported", False):
                        rm.pull_after_cancel_reported = True  # type: ignore[attr-defined]
                        w.fail({"C07"}, "group-cancel/iterable-advanced-afterwards", f"r{rm.rid}: {rm.pulled_at_cancel} -> {rm.pulled}")
            for rm in pm.reqs:
                if rm.cancelled:
                    n_started = sum(1 for c in rm.calls if c.task is not None)
                    if n_started > rm.n_wstart_at_cancel:
                        late = [c for c in rm.calls if c.task is not None and c.task.created_op > rm.cancel_op]
                        if late and not getattr(rm, "start_after_cancel_reported", False):
                            rm.start_after_cancel_reported = True  # type: ignore[attr-defined]
                            w.fail({"C07"}, "group-cancel/task-started-afterwards", f"r{rm.rid}: task {late[0].task.tid} created after the cancellation")
                    if len(rm.calls) > rm.calls_at_cancel and not getattr(rm, "call_after_cancel_reported", False):
                        # one call may be in flight legitimately? no: the spawner is cancelled at its suspension point, never calls again
                        rm.call_after_cancel_reported = True  # type: ignore[attr-defined]
                        w.fail({"C07"}, "group-cancel/func-called-afterwards", f"r{rm.rid}: {rm.calls_at_cancel} -> {len(rm.calls)}")
            for rm in self.rejected_reqs:
                if (rm.calls or rm.pulled > 0) and not getattr(rm, "late_reported", False):
                    rm.late_reported = True  # type: ignore[attr-defined]
                    w.fail({"C09"}, "spawn/rejected-request-ran-later", f"r{rm.rid}")

    # ================================================================== idle predicates
    def at_idle(self) -> None:
        w = self.w
        if w.in_user:
            return
        # C11: a task name of the form '<pool>_Task-<id>' belongs to exactly one live task (spawners, actors and the driver have others)
        seen: Dict[str, int] = {}
        for t in asyncio.all_tasks(w.loop):
            if not t.done():
                nm = t.get_name()
                if "_Task-" in nm and w.pool_of_name(nm) is not None:
                    seen[nm] = seen.get(nm, 0) + 1
        dup = sorted(n for n, k in seen.items() if k > 1)
        if dup:
            w.fail({"C11"}, "name/two-live-tasks-share-a-task-name", dup[0])
        for pm in w.pools:
            pool = pm.pool
            live = len(pm.live_tasks())
            anycb = pm.any_cb()
            nr = pool.num_running
            if not pm.closed:
                if nr != live:
                    w.fail({"C02", "C03"}, "idle/num_running-vs-live-workers", f"{pm.name}: num_running {nr}, live workers {live}")
            if not pm.size_dirty and not pm.closed:
                if not anycb:
                    full = pool.is_full
                    if full != (live == pm.size):
                        w.fail({"C01", "C02"} | ({"C15"} if pm.size_assigned else set()), "idle/is_full-vs-live", f"{pm.name}: is_full={full} live={live} size={pm.size}")
                    if live == pm.size:
                        w.label("idle:pool-full")
            for tm in pm.tasks.values():
                if tm.live and tm.pending and not tm.in_aflush:
                    # (a task suspended in `await pool.flush()` gets its CancelledError only when what flush gathers has finished
                    #  being cancelled - asyncio.gather semantics; it still is the next thing it observes)
                    w.fail(self.stray_props() | {"C06"}, "cancel/not-delivered-by-idle", f"{pm.name}#{tm.tid}")
                if not tm.started and not tm.forgotten and tm.atask is not None and not tm.atask.done() and tm.ccb_n == 0 and tm.ecb_n == 0:
                    w.fail({"C02"}, "idle/task-never-started-still-pending", f"{pm.name}#{tm.tid}")
            if not pm.closed:
                known = [t for t in pm.tasks.values() if not t.forgotten]
                total = nr + pool.num_cancelled + pool.num_ended
                maybe = sum(1 for t in known if t.may_forget)
                if not (len(known) - maybe <= total <= len(known)) and not pm.closing:
                    w.fail({"C03"}, "idle/counter-sum-vs-created-minus-forgotten", f"{pm.name}: sum {total}, known {len(known)}, may-be-forgotten {maybe}")
            # C15: raising the limit lets waiting tasks start at once, up to the new limit
            if pm.size_assigned and not anycb and not pm.closed:
                blocked = [r for r in pm.reqs if r.accepted and not r.cancelled and r.spawner is not None and not r.spawner.done()
                           and (r.kind in ("apply", "start") or sum(1 for tid in r.tids if tid in pm.tasks and pm.tasks[tid].live) < r.nc)]
                if blocked and live < pm.size:
                    w.fail({"C15"}, "pool_size/waiters-not-started-although-room" if pm.size_dirty else "pool_size/waiters-not-started-clean-pool",
                           f"{pm.name}: {live} live, limit {pm.size}, r{blocked[0].rid} still waiting")
            # C05 work conserving
            if not anycb and not pm.size_dirty:
                for rm in pm.reqs:
                    if rm.kind in ("apply", "start") or rm.cancelled or not rm.accepted or rm.pulled < 0:
                        continue
                    if rm.spawner is None or rm.spawner.done():
                        continue
                    lr = sum(1 for tid in rm.tids if tid in pm.tasks and pm.tasks[tid].live)
                    room = live < pm.size
                    if room and lr != rm.nc:
                        w.fail({"C05", "C12"} if pm.fault_seen else {"C05"}, "map/not-work-conserving-at-idle",
                               f"r{rm.rid}: {lr} live, num_concurrent {rm.nc}, pool {live}/{pm.size}, pulled {rm.pulled}")
                    if lr == rm.nc:
                        w.label("map:at-num_concurrent")
            if not pm.closed:
                try:
                    none = pm.pool.get_group_ids()
                    if none != set():
                        w.fail({"C10"}, "group/no-names-gives-nonempty", repr(none))
                except Exception as e:
                    w.fail({"C10"}, "group/no-names-raised", type(e).__name__)
            # C10: the union for several names (and asking for it changes nothing)
            names = [n for n, r in pm.groups_live.items() if not getattr(r, "unknown_reported", False)]
            if len(names) >= 2 and not pm.closed:
                try:
                    got = pm.pool.get_group_ids(*names)
                except Exception as e:
                    w.fail({"C10"}, "group/union-query-raised", f"{names}: {type(e).__name__}")
                else:
                    self.sync_groups(pm)
                    want = set()
                    for n in names:
                        want |= set(pm.groups_live[n].tids)
                    if set(got) != want:
                        w.fail({"C10"}, "group/union-of-several-names", f"{names}: {sorted(got)} != {sorted(want)}")
                    w.label("group:union-query")
            # ... a name given more than once changes nothing
            if names and not pm.closed:
                a = names[0]
                for q in ([a, a], [a] + names[1:2] + [a], names + names):
                    try:
                        got = pm.pool.get_group_ids(*q)
                    except Exception as e:
                        w.fail({"C10"}, "group/repeated-name-raised", f"{q}: {type(e).__name__}")
                        break
                    self.sync_groups(pm)
                    want = set()
                    for n in q:
                        want |= set(pm.groups_live[n].tids)
                    if set(got) != want:
                        w.fail({"C10"}, "group/repeated-name-changes-the-answer", f"{q}: {sorted(got)} != {sorted(want)}")
                        break
            # ... and an unknown name anywhere among known ones (first, last, in between) makes the whole query raise
            if names and not pm.closed:
                unknown = "no-such-group-%d" % len(pm.reqs)
                dead = [r.group for r in pm.reqs if r.group and r.group not in pm.groups_live]
                for bad in [unknown] + dead[:1]:
                    for q in (names + [bad], [bad] + names, names[:1] + [bad] + names[1:]):
                        try:
                            got = pm.pool.get_group_ids(*q)
                        except self.L.exceptions.InvalidGroupName:
                            continue
                        except Exception as e:
                            w.fail({"C10"}, "group/unknown-name-among-known-wrong-error", f"{q}: {type(e).__name__}")
                            break
                        w.fail({"C10"}, "group/unknown-name-among-known-accepted", f"{q} -> {sorted(got)}")
                        break
                w.label("group:unknown-among-known-query")
            # C10 partition at idle
            for tm in pm.tasks.values():
                rm = tm.req
                if tm.started and rm is not None and not rm.cancelled and rm.group in pm.groups_live and tm.tid not in rm.tids:
                    w.fail({"C10", "C04"}, "group/task-not-in-its-group", f"{pm.name}#{tm.tid} of r{rm.rid}")
            # C08: until_closed never released early is checked in its actor
            # C15: after an assignment on an unoccupied pool the limit is enforced like a constructor value (see always)

    # ================================================================== end of run
    async def epilogue(self) -> None:
        w = self.w
        for _ in range(600):
            n = w.release_all()
            await w.settle()
            if not w.waiters and n == 0:
                break
        else:
            w.inconclusive = "epilogue did not quiesce"
            return
        self.in_epilogue = True  # type: ignore[attr-defined]
        self.final_checks()
        await self.capacity_probe()

    def final_checks(self) -> None:
        w = self.w
        for a in w.actors:
            if not a.done():
                nm = a.get_coro().__name__
                pm_a = getattr(a, "vt_pm", None)
                if nm == "actor_until_closed":
                    if pm_a is not None and pm_a.closed:
                        w.fail({"C08"}, "final/until_closed-never-released", pm_a.name)
                    continue
                if pm_a is not None and self.cannot_finish(pm_a):
                    continue
                w.fail({"C08"} if nm == "actor_close" else {"C13"}, "final/blocking-call-never-returned", nm)
            elif not a.cancelled() and a.exception() is not None:
                raise a.exception()  # harness bug: surface it
        for pm in w.pools:
            pool = pm.pool
            for tm in pm.tasks.values():
                name = f"{pm.name}#{tm.tid}"
                if tm.atask is not None and not tm.atask.done():
                    w.fail({"C02"}, "final/task-never-finished", name)
                    continue
                if tm.live:
                    w.fail({"C02"}, "final/worker-never-finished", name)
                if tm.atask is not None and tm.atask.done():
                    if tm.atask.cancelled():
                        if not tm.stray_ok:
                            w.fail({"C02", "C03"}, "final/task-ended-in-cancelled-state", name)
                    else:
                        exc = tm.atask.exception()
                        if exc is not None and not self.is_injected(pm, exc):
                            w.fail({"C02", "C12", "C03"}, "final/task-failed-with-foreign-exception", f"{name}: {type(exc).__name__}: {exc}")
                if tm.faults and tm.atask is not None and tm.atask.done() and not getattr(tm, "disturbed", False):
                    # an exception raised by the task's coroutine or by one of its callbacks is what the task ends with
                    got = None if tm.atask.cancelled() else tm.atask.exception()
                    if not any(got is f for f in tm.faults):
                        w.fail({"C12"}, "task/injected-exception-lost", f"{name}: raised {tm.faults!r}, task ended with {got!r}")
                self.check_task_lifecycle(pm, tm)
            if not pm.closed and pool.num_running != 0:
                w.fail({"C02"}, "final/num_running-nonzero", f"{pm.name}: {pool.num_running}")
            self.check_ids(pm)
            for rm in pm.reqs:
                self.check_request_complete(pm, rm)

    def check_ids(self, pm: PoolM) -> None:
        """C11: ids dense from 0, increasing in creation (= start) order, one task per id."""
        w = self.w
        ids = sorted(pm.tasks)
        if ids != list(range(len(ids))):
            w.fail({"C11"}, "id/not-dense-from-zero", f"{pm.name}: {ids[:12]}")
        started = sorted((t for t in pm.tasks.values() if t.started), key=lambda t: t.start_seq)
        seq = [t.tid for t in started]
        if seq != sorted(seq):
            w.fail({"C11"}, "id/not-increasing-in-start-order", f"{pm.name}: {seq[:12]}")
        for rm in pm.reqs:
            if rm.spec.get("plain"):
                continue
            tids = [c.task.tid for c in rm.calls if c.task is not None]
            if tids != sorted(tids):
                w.fail({"C11"}, "id/not-increasing-in-call-order", f"r{rm.rid}: {tids}")
            if rm.kind not in ("apply", "start"):
                done = sorted((c.task for c in rm.calls if c.task is not None and c.task.body_done), key=lambda t: t.end_seq)
                if [t.tid for t in done] != sorted(t.tid for t in done):
                    w.label("map:finished-out-of-start-order")
        if len(ids) >= 1:
            w.label("ids:pool-with-tasks-%d" % min(pm.idx, 2))

    def cannot_finish(self, pm: PoolM) -> bool:
        """Pending work of this pool can legitimately never complete: a pool of size 0 starts nothing."""
        return (pm.size == 0 or pm.size_dirty) and any(self.req_active(r) or (r.spawner is not None and not r.spawner.done()) for r in pm.reqs)  # type: ignore[attr-defined]

    def cb_specs(self, pm: PoolM, tm: TaskM):
        if pm.spec["cls"] == "SimpleTaskPool":
            return pm.spec.get("ecb"), pm.spec.get("ccb")
        if tm.req is None:
            return None, None
        return tm.req.spec.get("ecb"), tm.req.spec.get("ccb")

    def check_task_lifecycle(self, pm: PoolM, tm: TaskM) -> None:
        w = self.w
        name = f"{pm.name}#{tm.tid}"
        if tm.req is None and pm.spec["cls"] != "SimpleTaskPool":
            return
        if getattr(tm, "disturbed", False):
            return      # its callbacks were interrupted by the user's own cancellation of a flush() caller
        ecb, ccb = self.cb_specs(pm, tm)
        P = {"C03"}
        if ecb is not None:
            if tm.ecb_n != 1:
                w.fail({"C03", "C02"}, "cb/end-callback-count", f"{name}: {tm.ecb_n}")
        if ccb is not None:
            if tm.started:
                want = 1 if tm.how == "cancel" else 0
                if tm.ccb_n != want:
                    w.fail(P, "cb/cancel-callback-count", f"{name}: {tm.ccb_n}, body ended by {tm.how}")
            elif tm.ccb_n > 1:
                w.fail(P, "cb/cancel-callback-count", f"{name}: {tm.ccb_n} (never started)")
        ev = [e for e in tm.events if e.endswith("cb+") or e.endswith("cb-") or e.endswith("interrupted")]
        # allowed order: [ccb+ ccb-] [ecb+ ecb-]
        order = "".join({"ccb+": "a", "ccb-": "b", "ecb+": "c", "ecb-": "d"}.get(e, "x") for e in ev)
        import re as _re
        if not _re.fullmatch(r"(ab)?(cd)?", order):
            w.fail(P, "cb/order-or-completion", f"{name}: {ev}")
        if tm.ccb_n and tm.started and tm.body_done is False:
            w.fail(P, "cb/cancel-callback-before-body-end", name)

    def check_request_complete(self, pm: PoolM, rm: ReqM) -> None:
        w = self.w
        if not rm.accepted:
            return
        rid = f"r{rm.rid}({rm.kind})"
        C = {"C04"} if rm.kind in ("apply", "start") else {"C05"}
        if getattr(pm, "close_failed", False):
            return
        if pm.size == 0:
            if not pm.size_assigned and any(c.task is not None for c in rm.calls):
                w.fail({"C01"}, "size/task-started-in-size-0-pool", rid)
            return      # a pool of size 0 starts nothing: completeness is not owed
        if pm.size_dirty:
            return      # reassigned while slots were in use (open finding D4): waiters may legitimately be stuck for good
        if pm.closing:
            C = C | {"C08"}
        if pm.fault_seen:
            C = C | {"C12"}
        if not rm.cancelled and ({"cancel_group", "cancel_all"} & self.ops_seen) and any(r.cancelled for r in pm.reqs):
            C = C | {"C07"}      # a sibling of a cancelled group must keep progressing
        sp = rm.spawner
        if sp is not None:
            if not sp.done():
                if not rm.cancelled:
                    w.fail(C, "final/spawner-never-finished", rid)
            elif sp.cancelled() and getattr(rm, "iter_cancelled", None) is not None and not rm.cancelled:
                # the user's argument iterable raised CancelledError: the request ends there, what was pulled before was processed
                for c in rm.calls:
                    if not self.args_ok(rm, c):
                        w.fail(C, "call/wrong-arguments", f"{rid}[{c.idx}]")
                if self.accounted(pm, rm) != rm.iter_cancelled:  # type: ignore[attr-defined]
                    w.fail(C, "final/number-of-invocations", f"{rid}: {self.accounted(pm, rm)} invocations, iterator raised CancelledError at {rm.iter_cancelled}")  # type: ignore[attr-defined]
                return
            elif not sp.cancelled() and sp.exception() is not None:
                if getattr(rm, "bad_return", None) is not None and type(sp.exception()).__name__ == "NotCoroutine":
                    # the user's function returned something that is not a coroutine: the request dies there, nothing more is owed
                    w.label("fault:non-coroutine-return")
                    return
                if self.is_injected(pm, sp.exception()) and getattr(rm, "call_fatal", None) is not None:
                    # the user's function raised something that is no Exception when called: the request dies there
                    return
                if self.is_injected(pm, sp.exception()) and getattr(rm, "iter_failed", None) is not None:
                    # the user's argument iterable raised: what was pulled before must have been processed, nothing more is owed
                    for c in rm.calls:
                        if not self.args_ok(rm, c):
                            w.fail(C, "call/wrong-arguments", f"{rid}[{c.idx}]")
                    if not rm.cancelled and self.accounted(pm, rm) != rm.iter_failed:  # type: ignore[attr-defined]
                        w.fail(C, "final/number-of-invocations", f"{rid}: {self.accounted(pm, rm)} invocations, iterator failed at {rm.iter_failed}")  # type: ignore[attr-defined]
                    return
                w.fail(C | {"C12"}, "final/spawner-died", f"{rid}: {type(sp.exception()).__name__}: {sp.exception()}")
                return
        # arguments (identity) -- checked for every call made, cancelled or not
        for c in rm.calls:
            if not self.args_ok(rm, c):
                w.fail(C, "call/wrong-arguments", f"{rid}[{c.idx}]: args={c.args!r} kwargs={c.kwargs!r}")
                break
        plain = bool(rm.spec.get("plain"))
        if rm.cancelled:
            return
        exp = rm.expected_calls
        if not plain:
            if len(rm.calls) != exp:
                w.fail(C, "final/number-of-invocations", f"{rid}: {len(rm.calls)} calls, expected {exp}")
        if rm.kind not in ("apply", "start") and rm.pulled >= 0:
            if not rm.exhausted:
                w.fail(C, "final/iterable-not-exhausted", f"{rid}: pulled {rm.pulled}/{exp}")
        ok = rm.ok_calls()
        # every successful call became a task that ran, unless that task was cancelled by id before its first step
        not_run = [c for c in ok if c.task is None]
        if plain:
            # plain async functions: the call is only visible once the body starts; count tasks instead
            started = len(rm.calls)
            never = [pm.tasks[t] for t in rm.tids if t in pm.tasks and not pm.tasks[t].started]
            if started + len(never) != exp - 0:
                w.fail(C, "final/number-of-invocations", f"{rid}: {started} started + {len(never)} never-started, expected {exp}")
            for tmn in never:
                if not tmn.cancel_req:
                    w.fail(C, "final/task-never-ran", f"{rid}: {pm.name}#{tmn.tid}")
        else:
            never = [pm.tasks[t] for t in rm.tids if t in pm.tasks and not pm.tasks[t].started]
            excused = sum(1 for t in never if t.cancel_req)
            if len(not_run) > excused:
                w.fail(C, "final/invocation-never-ran", f"{rid}: {len(not_run)} calls without a running task, {excused} cancelled before their first step")
            if len(rm.tids) != len(ok) and not rm.group_forgotten:
                w.fail(C | {"C10"}, "final/tasks-vs-successful-calls", f"{rid}: {len(rm.tids)} ids in group, {len(ok)} successful calls")
        # start order == call order
        seqs = [c.task.start_seq for c in ok if c.task is not None]
        if seqs != sorted(seqs):
            w.fail(C, "final/start-order-differs-from-call-order", rid)
        if rm.kind not in ("apply", "start") and not plain:
            idxs = [c.idx for c in rm.calls]
            if idxs != list(range(len(idxs))):
                w.fail(C, "final/call-order", rid)

    def accounted(self, pm: PoolM, rm: ReqM) -> int:
        """Invocations of the request the harness can account for (plain async workers only show up when they start)."""
        if not rm.spec.get("plain"):
            return len(rm.calls)
        return len(rm.calls) + sum(1 for t in rm.tids if t in pm.tasks and not pm.tasks[t].started)

    def args_ok(self, rm: ReqM, c: CallRec) -> bool:
        if c.uncallable:
            return True
        if rm.spec.get("plain") and rm.kind not in ("apply", "start"):
            # call order is not observable: the arguments must be those of some element, in increasing element order
            prev = getattr(rm, "_last_el", -1)
            for j in range(prev + 1, len(rm.elements)):
                if self.el_matches(rm, rm.elements[j], c):
                    rm._last_el = j  # type: ignore[attr-defined]
                    return True
            return False
        return self.args_ok_exact(rm, c)

    def el_matches(self, rm: ReqM, el: Any, c: CallRec) -> bool:
        if rm.kind == "map":
            return len(c.args) == 1 and c.args[0] is el and not c.kwargs
        if rm.kind == "starmap":
            want = list(el)        # func(*x): whatever iterating the element yields
            return len(c.args) == len(want) and all(x is y or (isinstance(y, str) and x == y) for x, y in zip(c.args, want)) and not c.kwargs
        keys = list(el.keys())
        return not c.args and set(c.kwargs) == set(keys) and all(c.kwargs[k] is el[k] for k in keys)

    def args_ok_exact(self, rm: ReqM, c: CallRec) -> bool:
        if rm.kind in ("apply", "start"):
            want_a = tuple(rm.args or ())
            want_k = dict(rm.kwargs or {})
            same = (lambda x, y: x == y) if getattr(rm, "args_eq", False) else (lambda x, y: x is y)
            return len(c.args) == len(want_a) and all(same(x, y) for x, y in zip(c.args, want_a)) and \
                set(c.kwargs) == set(want_k) and all(c.kwargs[k] is want_k[k] for k in want_k)
        if c.idx >= len(rm.elements):
            return False
        return self.el_matches(rm, rm.elements[c.idx], c)

    async def capacity_probe(self) -> None:
        """After everything finished, an N-sized pool must run exactly N of N+2 gated probe tasks at once."""
        w, L = self.w, self.L
        w.probing = True
        for pm in w.pools:
            if pm.closed or pm.closing or pm.size_dirty or pm.confused or (pm.size == 0 and self.cannot_finish(pm)):
                continue
            pool = pm.pool
            if pm.locked:
                pool.unlock()
                pm.locked = False
            n = 6 if pm.size == inf else int(pm.size) + 2
            want = n if pm.size == inf else int(pm.size)
            started: List[int] = []
            release = asyncio.Event()

            async def probe() -> None:
                started.append(1)
                await release.wait()

            if pm.spec["cls"] == "SimpleTaskPool":
                # a probe pool function cannot be swapped in; use the world's probe mode on a fresh request
                continue_simple = True
                self.probe_mode = True
                pm.probe_started = started  # type: ignore[attr-defined]
                pm.probe_release = release  # type: ignore[attr-defined]
                rm = self.build_request(pm, {"op": "spawn", "kind": "start", "num": n})  # type: ignore[attr-defined]
                rm.spec["probe"] = True
                before = set(asyncio.all_tasks(w.loop))
                try:
                    name = pool.start(n)
                except Exception as e:
                    w.fail({"C02"}, "probe/start-rejected", type(e).__name__)
                    continue
                new = [t for t in asyncio.all_tasks(w.loop) if t not in before]
                if len(new) == 1:
                    self.spawner_map[new[0]] = rm  # type: ignore[attr-defined]
                    rm.spawner = new[0]
                rm.accepted = True
                rm.group = name
            else:
                try:
                    pool.apply(probe, num=n)
                except Exception as e:
                    w.fail({"C02"}, "probe/apply-rejected", type(e).__name__)
                    continue
            w.teardown_probe = True  # type: ignore[attr-defined]
            try:
                for _ in range(200):
                    await asyncio.sleep(0)
                    if w.is_idle():
                        break
            finally:
                pass
            if pm.spec["cls"] == "SimpleTaskPool":
                got = sum(1 for c in rm.calls if c.task is not None and c.task.live)
            else:
                got = len(started)
            props = {"C02"} | ({"C12"} if pm.fault_seen else set()) | ({"C07"} if ("cancel_group" in self.ops_seen or "cancel_all" in self.ops_seen) else set()) \
                | ({"C13"} if "flush" in self.ops_seen else set()) | ({"C15"} if pm.size_assigned else set()) | ({"C01"} if got > want else set())
            if got != want:
                w.fail(props, "probe/capacity", f"{pm.name}: {got} of {n} probe tasks started at once, pool size {pm.size}")
            w.label("probe:done")
            release.set()
            w.release_all()
            for _ in range(400):
                w.release_all()
                await asyncio.sleep(0)
                if w.is_idle() and not w.waiters:
                    break
            if pool.num_running != 0:
                w.fail(props, "probe/tasks-left-running", f"{pm.name}: {pool.num_running}")
