"""Hypothesis strategies producing programs (plain JSON data) for the sim engine."""
from __future__ import annotations

from typing import Any, Dict, List, Optional

from hypothesis import strategies as st

# A profile steers the generator towards a property's quantifier. Everything is optional.
DEFAULT_PROFILE: Dict[str, Any] = {
    "classes": ["TaskPool", "TaskPool", "SimpleTaskPool"],
    "max_pools": 1,
    "sizes": [0, 1, 1, 2, 2, 3, 4, None, None],
    "min_steps": 3,
    "max_steps": 30,
    "ops": {"spawn": 8, "tick": 6, "gate": 6, "settle": 2, "cancel": 2, "cancel_group": 1, "cancel_all": 0.3,
            "flush": 1, "close": 0.3, "lock": 0.3, "unlock": 0.3, "stop": 1, "until_closed": 0.2,
            "bad_spawn": 0, "bad_pool": 0, "set_size": 0, "new_pool": 0, "abandon": 0, "abandon_uc": 0},
    "kinds": ["apply", "apply", "map", "map", "starmap", "doublestarmap"],
    "max_num": 5,
    "max_elems": 6,
    "max_nc": 4,
    "p_cb": 0.5,          # probability a request carries an end / cancel callback
    "p_cb_async": 0.5,
    "p_cb_wait": 0.4,
    "p_cb_raise": 0.06,
    "p_worker_raise": 0.06,
    "p_callfault": 0.05,
    "p_plain": 0.1,
    "p_embedded": 0.15,
    "p_gname": 0.2,
    "p_swallow": 0.1,
    "p_cleanup": 0.1,
    "embedded_ops": ["cancel", "cancel_group", "cancel_all", "spawn", "lock", "flush", "stop", "gate"],
    "places": ["inline", "inline", "task", "soon"],
    "fnames": ["w", "w", "x"],
    "end_with_close": 0.0,
    "cancel_refs": ["run", "run", "run", "live", "stale", "never", "neg", "incb", "any", "self"],
}


def profile(**over: Any) -> Dict[str, Any]:
    p = dict(DEFAULT_PROFILE)
    ops = dict(p["ops"])
    ops.update(over.pop("ops", {}))
    p.update(over)
    p["ops"] = ops
    return p


class D:
    """Decodes generator choices from a byte string drawn by Hypothesis (one cheap draw; every choice stays inside
    Hypothesis, so seeding, replay and byte-level shrinking work; value 0 always selects the simplest alternative)."""

    def __init__(self, data: bytes) -> None:
        self.data = data
        self.pos = 0

    def _b(self) -> int:
        if self.pos < len(self.data):
            v = self.data[self.pos]
            self.pos += 1
            return v
        return 0

    def i(self, lo: int, hi: int) -> int:
        span = hi - lo + 1
        if span <= 1:
            return lo
        v = self._b()
        if span > 200:
            v = (v << 8) | self._b()
        return lo + v % span

    def p(self, prob: float) -> bool:
        if prob <= 0:
            return False
        if prob >= 1:
            return True
        return (255 - self._b()) < prob * 256

    def pick(self, seq: List[Any]) -> Any:
        return seq[self.i(0, len(seq) - 1)]

    def weighted(self, weights: Dict[str, float]) -> str:
        items = [(k, v) for k, v in weights.items() if v > 0]
        total = sum(int(v * 100) for _, v in items)
        x = ((self._b() << 8) | self._b()) % total
        for k, v in items:
            x -= int(v * 100)
            if x < 0:
                return k
        return items[-1][0]


def gen_cb(d: D, prof: dict, depth: int) -> Optional[dict]:
    if not d.p(prof["p_cb"]):
        return None
    cb: Dict[str, Any] = {"async": d.p(prof["p_cb_async"])}
    if cb["async"]:
        if d.p(prof["p_cb_wait"]):
            cb["wait"] = True
        elif d.p(0.3):
            cb["yield"] = d.i(1, 2)
    if d.p(prof["p_cb_raise"]):
        cb["raise"] = True
        cb["fault_kind"] = d.i(0, 5)
    r = d.i(0, 99)
    if r < 12:
        cb["partial"] = True
    elif r < 22 and not cb["async"]:
        cb["obj"] = True
    elif r < 30 and not cb["async"]:
        cb["falsy"] = True
    if depth == 0 and d.p(prof["p_embedded"]):
        cb["op"] = gen_op(d, prof, d.pick(prof["embedded_ops"]), depth + 1)
    return cb


def gen_script(d: D, prof: dict, depth: int) -> list:
    n = d.i(prof.get("min_script", 0), 3)
    script: list = []
    for _ in range(n):
        r = d.i(0, 9)
        if r < 5:
            script.append(["wait"])
            if d.p(prof.get("p_aflush", 0.04)):
                script[-1] = ["aflush"]
        elif r < 8 or depth > 0:
            script.append(["yield", d.i(1, 3)])
        elif d.p(prof["p_embedded"] * 3):
            script.append(["op", gen_op(d, prof, d.pick(prof["embedded_ops"]), depth + 1)])
        else:
            script.append(["wait"])
    return script


def gen_worker(d: D, prof: dict, depth: int, n_hint: int) -> dict:
    ws: Dict[str, Any] = {}
    if d.p(0.3):
        ws["scripts"] = [gen_script(d, prof, depth) for _ in range(d.i(2, 3))]
    else:
        ws["script"] = gen_script(d, prof, depth)
    if d.p(prof["p_worker_raise"]):
        # "cancelled": the coroutine ends by raising CancelledError itself (e.g. it awaited something that was cancelled): ended by
        # cancellation although nobody asked the pool for it
        ws["ends"] = [["raise"] if d.p(0.5) else ["cancelled"] if d.p(0.25) else ["ret"] for _ in range(d.i(1, 3))]
    r = d.i(0, 99)
    if r < prof["p_swallow"] * 100:
        ws["on_cancel"] = "swallow"
    elif r < (prof["p_swallow"] + prof["p_cleanup"]) * 100:
        ws["on_cancel"] = "cleanup"
    if d.p(prof["p_callfault"]) and n_hint > 0:
        ws["callfault"] = sorted({d.i(0, max(0, n_hint - 1)) for _ in range(d.i(1, 2))})
    elif d.p(prof.get("p_bad_return", 0.0)) and n_hint > 0 and prof.get("_kind_hint") in ("apply", "start"):
        ws["bad_return_at"] = d.i(0, n_hint - 1)
    if d.p(0.07):
        ws["retval"] = d.i(0, 3)       # the value a worker returns is its own business: an exception *instance*, None, ...
    ws["fname"] = d.pick(prof["fnames"])
    if "ends" in ws or "callfault" in ws:
        ws["fault_kind"] = d.i(0, 17)
    if d.p(0.08):
        ws["partial"] = True
    elif d.p(0.15):
        ws["nested_qualname"] = True
    if depth == 0 and d.p(prof["p_embedded"] * 0.5):
        ws["call_op"] = gen_op(d, prof, d.pick(["cancel_group", "cancel", "gate", "lock"]), depth + 1)
        ws["call_op_at"] = d.i(0, max(0, n_hint - 1))
    return ws


def gen_spawn(d: D, prof: dict, depth: int, op: Optional[dict] = None) -> dict:
    op = op or {"op": "spawn"}
    op["pool"] = d.i(0, prof["max_pools"] - 1)
    kind = d.pick(prof["kinds"])
    op["kind"] = kind
    if prof.get("burst"):
        # many tasks at once: counts beyond 128 / 256 with workers that finish at once or after one tick
        big = d.i(100, prof["max_num"])
        op.update({"num": big, "n": big, "nc": d.pick([1, 4, 200]), "worker": {"script": d.pick([[], [], [["yield", 1]]]), "fname": "w"}})
        return op
    if kind in ("apply", "start"):
        r = d.i(0, 9)
        num = d.i(0, prof["max_num"]) if r else 1
        if r or d.p(0.5):
            op["num"] = num
        n_hint = num
        na = d.i(0, 2)
        if na:
            op["nargs"] = na
        nk = d.i(-1, 2)
        if nk:
            op["nkw"] = nk
            if nk > 0 and d.p(0.3):
                op["kwkeys"] = d.i(0, 19)       # keyword names that also occur as parameter names inside the library
        if d.p(0.2):
            op["pass_args"] = True
        r2 = d.i(0, 9)
        if r2 == 2 and na:
            op["args_as_str"] = True
        if r2 == 0:
            op["args_as_list"] = True
        elif r2 == 1:
            op["kwargs_as_mapping"] = True
    else:
        op["n"] = n_hint = d.i(0, prof["max_elems"])
        if d.p(0.85):
            op["nc"] = d.i(1, prof["max_nc"])
            if d.p(0.04):
                op["nc"] = "inf"
        if d.p(0.35):
            op["shapes"] = [d.i(0, 6) for _ in range(d.i(1, 3))]
        if d.p(prof.get("p_iter_raise", 0.0)) and op["n"]:
            op["iter_raise_at"] = d.i(0, op["n"] - 1)
            op["fault_kind"] = d.i(0, 5)
        if d.p(0.12):
            op["as_cursor"] = True          # an iterable whose __iter__ is observable (not its own iterator)
        if d.p(0.1):
            op["as_list"] = True
        elif depth == 0 and d.p(prof["p_embedded"] * 0.5) and op["n"]:
            op["pull_ops"] = {str(d.i(0, op["n"] - 1)): gen_op(d, prof, d.pick(["cancel_group", "cancel", "spawn", "gate", "flush"]), depth + 1)}
        if "as_list" not in op and d.p(0.08):
            op["hint"] = d.pick([0, 1, 2, 50])     # the iterator answers operator.length_hint() - too low or too high
    op["worker"] = gen_worker(d, dict(prof, _kind_hint=kind), depth, n_hint)
    e = gen_cb(d, prof, depth)
    c = gen_cb(d, prof, depth)
    if e is not None:
        op["ecb"] = e
    if c is not None:
        op["ccb"] = c
    if d.p(prof["p_plain"]) and "callfault" not in op["worker"] and "call_op" not in op["worker"]:
        op["plain"] = True
    if d.p(prof["p_gname"]):
        gr = prof.get("gname_range", (8, 2))
        op["gname"] = [d.i(0, gr[0]), d.i(0, gr[1])]
    return op


def gen_op(d: D, prof: dict, name: str, depth: int = 0) -> dict:
    op: Dict[str, Any] = {"op": name}
    np_ = prof["max_pools"]
    if name == "spawn":
        return gen_spawn(d, prof, depth)
    if name == "tick":
        op["k"] = d.i(1, 4)
        return op
    if name == "settle":
        return op
    if name == "gate":
        op["k"] = d.i(0, 7)
        return op
    if name in ("abandon", "abandon_uc"):
        op["k"] = d.i(0, 3)
        return op
    op["pool"] = d.i(0, np_ - 1)
    if name == "cancel":
        n = d.pick([1, 1, 1, 2, 2, 3, 4])
        op["refs"] = [[d.pick(prof["cancel_refs"]), d.i(0, 6)] for _ in range(n)]
        if d.p(0.1):
            op["msg"] = True
    elif name == "cancel_group":
        op["ref"] = [d.pick(["live", "live", "live", "live", "own", "dead", "unknown"]), d.i(0, 5)]
    elif name == "cancel_all":
        pass
    elif name == "stop":
        r = d.i(0, 9)
        if r == 0:
            op["all"] = True
        elif r < prof.get("stop_rel_share", 4):
            op["rel"] = d.pick(prof.get("stop_rel", [-3, -2, -1, 0, 1, 2, 3]))
        else:
            op["n"] = d.i(-2, 5)
            if d.p(0.05):
                op["n"] = d.pick([2 ** 70, "inf"])
    elif name in ("flush", "close"):
        r = d.i(0, 3)
        if r == 0:
            op["re"] = True
        elif r == 1:
            op["default_re"] = True
    elif name == "set_size":
        op["v"] = d.pick(prof.get("new_sizes", [0, 1, 2, 3, 4, 5, None, -1, -2, -0.5, -0.25, "-inf"]))
    elif name == "bad_spawn":
        gen_spawn(d, prof, 1, op)
        op["op"] = "bad_spawn"
        bad = []
        if d.p(0.6):
            bad.append("func")
            op["func_kind"] = d.i(0, 8)
        if d.p(0.5) or not bad:
            bad.append("nc")
            op["nc_val"] = d.i(0, 3)
        op["bad"] = bad
    elif name == "new_pool":
        op.pop("pool", None)
        op["size"] = d.pick([None, 1, 2, 3])
        op["factory"] = d.p(0.4)
    elif name == "bad_pool":
        op["v"] = d.i(0, 3)
        op["simple"] = d.p(0.3)
    return op


def gen_pool(d: D, prof: dict) -> dict:
    cls = d.pick(prof["classes"])
    spec: Dict[str, Any] = {"cls": cls, "size": d.pick(prof["sizes"])}
    if d.p(0.2):
        spec["name"] = "named%d" % d.i(0, 9)
    elif d.p(0.08):
        spec["name"] = d.pick(["100%", "a%%b", "%s", "%d-pool", "x y", "näme", "{0}", "p_Task-1", "a-rather-long-name-for-a-pool-" * 3, "w" * 300]) + str(d.i(0, 3))
    elif d.p(0.05):
        spec["name"] = ""          # a blank name (e.g. from an unset config value) is no name
    if spec["size"] is not None and d.p(0.1):
        spec["size_as_float"] = True          # 2.0 is as good a size as 2 (the parameter is annotated float)
    if cls == "SimpleTaskPool":
        # the pool's one function may itself operate on the pool (stop, cancel, ...), but does not start more of itself
        emb = [o for o in prof["embedded_ops"] if o != "spawn"] or ["gate"]
        spec["worker"] = gen_worker(d, dict(prof, embedded_ops=emb), 0, prof["max_num"])
        spec["worker"].pop("call_op", None)
        spec["worker"]["nargs"] = d.i(0, 2)
        spec["worker"]["nkw"] = d.i(-1, 2)
        if spec["worker"]["nkw"] > 0 and d.p(0.3):
            spec["worker"]["kwkeys"] = d.i(0, 19)
        e = gen_cb(d, prof, 1)
        c = gen_cb(d, prof, 1)
        if e is not None:
            spec["ecb"] = e
        if c is not None:
            spec["ccb"] = c
    return spec


NBYTES = 1600


def decode_program(data: bytes, prof: dict) -> dict:
    d = D(data)
    npools = d.i(1, prof["max_pools"])
    pools = []
    names = set()
    for _ in range(npools):
        ps = gen_pool(d, prof)
        if ps.get("name") in names and ps.get("name"):
            ps.pop("name", None)
        if ps.get("name") is not None:
            names.add(ps["name"])
        pools.append(ps)
    nsteps = d.i(prof["min_steps"], prof["max_steps"])
    steps = []
    for _ in range(nsteps):
        name = d.weighted(prof["ops"])
        op = gen_op(d, prof, name, 0)
        if name in ("flush", "close", "until_closed"):
            op["place"] = d.pick(["eager", "eager", "task"])
        elif name not in ("tick", "settle"):
            op["place"] = d.pick(prof["places"])
        steps.append(op)
    if d.p(prof["end_with_close"]):
        steps.append({"op": "close", "pool": d.i(0, npools - 1), "place": d.pick(["eager", "task"]), **({"re": True} if d.p(0.3) else {})})
    prog = {"pools": pools, "steps": steps}
    for hook in prof.get("post", ()):
        prog = hook(prog, d)
    if d.p(0.12):
        prog["log"] = "debug"       # the deployment has the library's logger at DEBUG: every log call is evaluated and formatted
    return prog


def programs(prof: dict) -> Any:
    return st.binary(min_size=NBYTES, max_size=NBYTES).map(lambda b: decode_program(b, prof))
