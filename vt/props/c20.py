"""C20: 'async with queue as item' marks every taken item processed exactly once."""
from __future__ import annotations

import asyncio
import copy
import itertools
from typing import Any, Dict, List, Optional

from hypothesis import strategies as st

from ..common import CaseTimeout
from ..runner import Engine
from ..sim.gen import D

NB = 400


class BodyError(Exception):
    pass


class NastyError(BodyError):
    """A body failure that cannot even be printed."""

    def __str__(self) -> str:
        raise RuntimeError("no str() for this exception")

    __repr__ = __str__


class Falsy:
    """An item that is falsy, unhashable and compares equal to everything, None included."""
    __hash__ = None  # type: ignore[assignment]

    def __bool__(self) -> bool:
        return False

    def __eq__(self, other: Any) -> bool:
        return True

    def __len__(self) -> int:
        return 0


OTHER_TYPES = (TimeoutError, asyncio.TimeoutError, asyncio.QueueEmpty, asyncio.QueueFull, KeyError, LookupError, OSError, AssertionError,
               asyncio.InvalidStateError, EOFError, ConnectionResetError, asyncio.IncompleteReadError if False else BufferError)


class Unprintable:
    """An item that cannot be printed."""

    def __repr__(self) -> str:
        raise RuntimeError("no repr() for this item")

    __str__ = __repr__


# what a queue may legitimately carry: kind 0 is a serial number; the others are values that code tends to mistake for "no item"
ITEM_KINDS = ["serial", "None", "zero", "False", "empty-str", "empty-tuple", "fresh-list", "falsy-object", "exception", "ellipsis", "unprintable"]


def make_item(kind: int, serial: int) -> Any:
    name = ITEM_KINDS[kind % len(ITEM_KINDS)]
    return {"serial": serial + 1, "None": None, "zero": 0, "False": False, "empty-str": "", "empty-tuple": (), "fresh-list": [],
            "falsy-object": Falsy(), "exception": BodyError(), "ellipsis": ..., "unprintable": Unprintable()}[name]


def decode(data: bytes) -> dict:
    d = D(data)
    prog: Dict[str, Any] = {"maxsize": d.pick([0, 0, 1, 2, 3]), "steps": []}
    n = d.i(3, 28)
    for _ in range(n):
        r = d.i(0, 99)
        if r < 20:
            nput = d.i(1, 3)
            step: Dict[str, Any] = {"op": "put", "n": nput}
            if d.p(0.35):
                step["kinds"] = [d.i(0, len(ITEM_KINDS) - 1) for _ in range(nput)]
            if d.p(0.25):
                step["nowait"] = True
            prog["steps"].append(step)
        elif r < 42:
            body = []
            for _ in range(d.i(0, 2)):
                body.append(["wait"] if d.p(0.55) else ["yield", d.i(1, 3)])
            prog["steps"].append({"op": "consumer", "body": body, "end": d.pick(["ret", "ret", "raise", "ret", "raise", "raise-nasty", "raise-stop", "raise-type:%d" % d.i(0, 11)]), "n": d.i(1, 2),
                                  "swallow": d.p(0.1), "nested": ("other" if d.p(0.3) else True) if d.p(0.2) else False})
        elif r < 46:
            prog["steps"].append({"op": "agen", "how": d.pick(["aclose", "aclose", "exhaust", "throw"])})
        elif r < 60:
            prog["steps"].append({"op": "cancel", "k": d.i(0, 5), "which": d.pick(["waiting", "inbody", "any"])})
        elif r < 66:
            prog["steps"].append({"op": "joiner"})
        elif r < 68:
            prog["steps"].append({"op": "cancel_joiner", "k": d.i(0, 3)})
        elif r < 82:
            prog["steps"].append({"op": "gate", "k": d.i(0, 5)})
        elif r < 95:
            prog["steps"].append({"op": "tick", "k": d.i(1, 3)})
        else:
            prog["steps"].append({"op": "settle"})
    return prog


class QRun:
    def __init__(self, prog: dict) -> None:
        self.prog = prog
        self.viol: List[dict] = []
        self.labels: set = set()
        self.puts = self.entries = self.exits = 0
        self.consumers: List[dict] = []
        self.joiners: List[dict] = []
        self.waiters: List[Any] = []
        self.items_seen: List[Any] = []
        self.items_put: List[Any] = []
        self.teardown = False
        self.inconclusive: Optional[str] = None
        self.next_item = 0
        self.putters: List[Any] = []
        self.puts2 = self.exits2 = 0

    def fail(self, clause: str, detail: str = "") -> None:
        if self.teardown or any(v["clause"] == clause for v in self.viol):
            return
        self.viol.append({"props": ["C20"], "clause": clause, "detail": detail, "opno": self.puts + self.exits})

    def saw(self, item: Any) -> None:
        """The object handed to a block is one of the objects put, and no object is handed out more often than it was put."""
        n_put = sum(1 for x in self.items_put if x is item)
        n_seen = sum(1 for x in self.items_seen if x is item)
        if n_put == 0:
            self.fail("item/block-got-something-never-put", type(item).__name__)
        elif n_seen >= n_put:
            self.fail("item/delivered-twice", type(item).__name__)
        self.items_seen.append(item)
        if item is None or (not isinstance(item, int) or isinstance(item, bool)) or item == 0:
            self.labels.add("item:awkward-value")

    def zero_check(self) -> None:
        if self.puts == self.exits:
            for j in self.joiners:
                if j["started"]:
                    j["zero_seen"] = True

    async def wait(self) -> None:
        fut = self.loop.create_future()
        self.waiters.append(fut)
        try:
            await fut
        finally:
            if fut in self.waiters:
                self.waiters.remove(fut)

    async def consumer(self, rec: dict, spec: dict) -> None:
        q = self.q
        rec["state"] = "waiting"
        if spec.get("nested") and not rec.get("inner"):
            # one task holding two items at once: a block inside a block
            try:
                async with q as outer:
                    self.entries += 1
                    self.saw(outer)
                    self.labels.add("nested-blocks")
                    rec["inner"] = True
                    try:
                        if spec.get("nested") == "other":
                            # the inner block belongs to another queue of the same class (one task, two queues)
                            self.labels.add("nested-blocks-of-two-queues")
                            tok = object()
                            self.q2.put_nowait(tok)
                            self.puts2 += 1
                            async with self.q2 as got:
                                try:
                                    if got is not tok:
                                        self.fail("item/second-queue-handed-out-something-else", type(got).__name__)
                                    rec["state"] = "inbody"
                                    for step in spec["body"]:
                                        if step[0] == "wait":
                                            await self.wait()
                                        else:
                                            for _ in range(step[1]):
                                                await asyncio.sleep(0)
                                finally:
                                    self.exits2 += 1
                        else:
                            await self.consumer(rec, dict(spec, nested=False))
                    finally:
                        self.exits += 1
                        self.zero_check()
            except asyncio.CancelledError:
                raise
            except ValueError as e:
                self.fail("mark/task_done-called-too-often", str(e))
            rec["state"] = "exited"
            return
        try:
            async with q as item:
                rec["state"] = "inbody"
                self.entries += 1
                rec["item"] = item
                self.saw(item)
                if not (self.exits <= self.entries <= self.puts):
                    self.fail("count/exits<=entries<=puts", f"{self.exits} {self.entries} {self.puts}")
                try:
                    for step in spec["body"]:
                        try:
                            if step[0] == "wait":
                                await self.wait()
                            else:
                                for _ in range(step[1]):
                                    await asyncio.sleep(0)
                        except asyncio.CancelledError:
                            if spec.get("swallow") and not rec.get("swallowed"):
                                rec["swallowed"] = True
                                continue
                            raise
                    if spec["end"] == "raise":
                        self.labels.add("body:raised")
                        raise BodyError()
                    if spec["end"].startswith("raise-type"):
                        # the block may be left by any exception type: a time-out of something awaited inside, an error of another queue, ...
                        self.labels.add("body:raised")
                        self.labels.add("body:raised-other-type")
                        raise OTHER_TYPES[int(spec["end"].split(":")[1]) % len(OTHER_TYPES)]("body")
                    if spec["end"] == "raise-stop":
                        # e.g. next() on an exhausted iterator inside the block: an exception like any other as far as the block goes
                        self.labels.add("body:raised")
                        self.labels.add("body:raised-StopIteration")
                        raise StopIteration("body")
                    if spec["end"] == "raise-nasty":
                        self.labels.add("body:raised")
                        self.labels.add("body:raised-unprintable")
                        raise NastyError()
                except asyncio.CancelledError:
                    if not self.teardown:
                        self.labels.add("cancel:inside-body")
                    raise
                finally:
                    # last statement inside the block: __aexit__ follows in the same step
                    self.exits += 1
                    rec["state"] = "exited"
                    self.zero_check()
        except asyncio.CancelledError:
            if rec["state"] == "waiting" and not self.teardown:
                self.labels.add("cancel:while-waiting")
            rec["state"] = "cancelled" if rec["state"] == "waiting" else rec["state"]
            raise
        except BodyError:
            pass
        except StopIteration:
            pass
        except ValueError as e:
            self.fail("mark/task_done-called-too-often", str(e))
        except OTHER_TYPES:
            pass

    async def agen_consumer(self, rec: dict, how: str) -> None:
        """'async with queue as item' inside an async generator that is closed / thrown into while suspended in the block."""
        q = self.q
        run = self

        async def gen():
            async with q as item:
                rec["state"] = "inbody"
                run.entries += 1
                run.saw(item)
                try:
                    yield item
                finally:
                    run.exits += 1
                    rec["state"] = "exited"
                    run.zero_check()

        rec["state"] = "waiting"
        g = gen()
        try:
            await g.__anext__()
            self.labels.add("agen:" + how)
            if how == "aclose":
                await g.aclose()                      # GeneratorExit at the yield inside the block
            elif how == "throw":
                try:
                    await g.athrow(BodyError())
                except (BodyError, StopAsyncIteration):
                    pass
            else:
                try:
                    await g.__anext__()
                except StopAsyncIteration:
                    pass
        except asyncio.CancelledError:
            if rec["state"] == "waiting" and not self.teardown:
                self.labels.add("cancel:while-waiting")
                rec["state"] = "cancelled"
            try:
                await g.aclose()
            except BaseException:
                pass
            raise
        except ValueError as e:
            self.fail("mark/task_done-called-too-often", str(e))

    async def joiner(self, rec: dict) -> None:
        rec["started"] = True
        rec["zero_seen"] = self.puts == self.exits
        await self.q.join()
        rec["done"] = True
        if not rec["zero_seen"] and not self.teardown:
            self.fail("join/returned-although-items-unprocessed", f"puts {self.puts} exits {self.exits}")

    async def putter(self, item: Any) -> None:
        await self.q.put(item)
        self.puts += 1

    def idle_checks(self) -> None:
        if self.teardown:
            return
        for j in self.joiners:
            if j["task"].done() and j["task"].cancelled() and not j.get("cancel_requested"):
                self.fail("join/waiter-cancelled-by-somebody-else", f"puts {self.puts} exits {self.exits}")
            if j.get("cancel_requested"):
                continue
            if j["started"] and j["zero_seen"] and not j.get("done") and not j["task"].done():
                self.fail("join/not-released-although-all-processed", f"puts {self.puts} exits {self.exits}")
            if j["task"].done() and not j["task"].cancelled() and j["task"].exception() is not None:
                self.fail("join/raised", repr(j["task"].exception()))
        un2 = getattr(self.q2, "_unfinished_tasks", None)
        if un2 is not None and un2 != self.puts2 - self.exits2:
            self.fail("mark/second-queue-unfinished-count", f"queue counts {un2}, harness {self.puts2}-{self.exits2}")
        un = getattr(self.q, "_unfinished_tasks", None)
        if un is not None and un != self.puts - self.exits:
            self.fail("mark/unfinished-count-vs-puts-minus-exits", f"queue counts {un}, harness {self.puts}-{self.exits}")
        if not any(not p.done() for p in self.putters) and self.puts != self.entries + self.q.qsize():
            self.fail("item/lost-or-duplicated", f"puts {self.puts}, taken by blocks {self.entries}, still queued {self.q.qsize()}")
        waiting = [c for c in self.consumers if c["state"] == "waiting" and not c["task"].done()]
        if waiting and self.q.qsize() > 0:
            self.fail("item/consumer-waits-although-queue-nonempty", f"{len(waiting)} waiting, qsize {self.q.qsize()}")
        for c in self.consumers:
            t = c["task"]
            if t.done() and not t.cancelled() and t.exception() is not None:
                self.fail("consumer/foreign-exception", repr(t.exception()))

    async def settle(self) -> None:
        for _ in range(2000):
            await asyncio.sleep(0)
            if not self.loop._ready and not self.loop._scheduled:  # type: ignore[attr-defined]
                self.idle_checks()
                return
        self.inconclusive = "tick cap"

    async def driver(self) -> None:
        from asyncio_taskpool.queue_context import Queue
        self.q = Queue(maxsize=self.prog["maxsize"])
        self.q2 = Queue()
        for st_ in self.prog["steps"]:
            op = st_["op"]
            if op == "put":
                for j in range(st_["n"]):
                    kinds = st_.get("kinds") or []
                    item = make_item(kinds[j] if j < len(kinds) else 0, self.next_item)
                    self.next_item += 1
                    self.items_put.append(item)
                    if st_.get("nowait"):
                        # put_nowait() whatever the state of the queue: a refusal (QueueFull) puts nothing and owes nothing
                        try:
                            self.q.put_nowait(item)
                            self.puts += 1
                        except asyncio.QueueFull:
                            self.items_put.pop()
                            self.labels.add("put:refused-full")
                        continue
                    if not self.q.full():
                        self.q.put_nowait(item)
                        self.puts += 1
                    else:
                        self.labels.add("put:blocked")
                        self.putters.append(asyncio.ensure_future(self.putter(item)))
            elif op == "consumer":
                for _ in range(st_["n"]):
                    rec: Dict[str, Any] = {"state": "new"}
                    rec["task"] = asyncio.ensure_future(self.consumer(rec, st_))
                    self.consumers.append(rec)
            elif op == "agen":
                rec = {"state": "new"}
                rec["task"] = asyncio.ensure_future(self.agen_consumer(rec, st_["how"]))
                self.consumers.append(rec)
            elif op == "cancel":
                which = st_["which"]
                c = [x for x in self.consumers if not x["task"].done() and (which == "any" or x["state"] == which)]
                if c:
                    c[st_["k"] % len(c)]["task"].cancel()
            elif op == "joiner":
                rec = {"started": False, "zero_seen": False}
                rec["task"] = asyncio.ensure_future(self.joiner(rec))
                self.joiners.append(rec)
            elif op == "cancel_joiner":
                # somebody who waits in join() gives up: nobody else's business
                live_j = [j for j in self.joiners if not j["task"].done()]
                if live_j:
                    j = live_j[st_["k"] % len(live_j)]
                    j["cancel_requested"] = True
                    j["task"].cancel()
                    self.labels.add("joiner-cancelled")
                    if len(live_j) >= 2:
                        self.labels.add("joiner-cancelled-while-another-waits")
            elif op == "gate":
                live = [f for f in self.waiters if not f.done()]
                if live:
                    live[st_["k"] % len(live)].set_result(None)
            elif op == "tick":
                for _ in range(st_["k"]):
                    await asyncio.sleep(0)
            elif op == "settle":
                await self.settle()
            if self.inconclusive:
                return
        # epilogue: open all gates, let everything finish, final join probe
        for _ in range(50):
            for f in list(self.waiters):
                if not f.done():
                    f.set_result(None)
            await self.settle()
            if not self.waiters:
                break
        rec = {"started": False, "zero_seen": False}
        rec["task"] = asyncio.ensure_future(self.joiner(rec))
        self.joiners.append(rec)
        await self.settle()
        if (self.puts == self.exits) != rec["task"].done():
            self.fail("join/final-probe", f"puts {self.puts} exits {self.exits} join done {rec['task'].done()}")
        self.labels.add("final-join-probe")

    def execute(self) -> dict:
        loop = asyncio.new_event_loop()
        self.loop = loop
        loop.set_exception_handler(lambda l, c: None)
        err = None
        try:
            asyncio.set_event_loop(loop)
            loop.run_until_complete(self.driver())
        except Exception as e:
            import traceback
            err = "".join(traceback.format_exception(type(e), e, e.__traceback__))[-2000:]
        finally:
            self.teardown = True
            for _ in range(20):
                pend = [t for t in asyncio.all_tasks(loop) if not t.done()]
                if not pend:
                    break
                for t in pend:
                    t.cancel()
                try:
                    loop.run_until_complete(asyncio.wait(pend, timeout=0))
                except CaseTimeout:
                    raise
                except BaseException:
                    pass
            for t in asyncio.all_tasks(loop):
                if t.done() and not t.cancelled():
                    t.exception()
            asyncio.set_event_loop(None)
            loop.close()
        return {"violations": self.viol, "labels": sorted(self.labels), "stats": {}, "inconclusive": self.inconclusive, "error": err}


def sweep_cases(tier: str) -> List[dict]:
    """Every tick placement of a cancellation against small producer/consumer scenarios."""
    cases = []
    bodies = [[], [["yield", 1]], [["wait"]], [["yield", 2], ["wait"]]]
    for maxsize in (0, 1):
        for body in bodies:
            for end in ("ret", "raise", "raise-nasty", "raise-stop", "raise-type:0", "raise-type:2"):
                for ncons in (1, 2):
                    for nput in (0, 1, 2, 3):
                        for put_first in (True, False):
                            for t in range(0, 6):
                                for which in ("waiting", "inbody", "any"):
                                    a = {"op": "put", "n": nput} if nput else None
                                    b = {"op": "consumer", "body": body, "end": end, "n": ncons}
                                    steps = [x for x in ((a, b) if put_first else (b, a)) if x]
                                    steps.append({"op": "joiner"})
                                    if t:
                                        steps.append({"op": "tick", "k": t})
                                    steps.append({"op": "cancel", "k": 0, "which": which})
                                    steps.append({"op": "tick", "k": 1})
                                    steps.append({"op": "put", "n": 1})
                                    steps.append({"op": "settle"})
                                    cases.append({"maxsize": maxsize, "steps": steps})
    cases = cases[::6] if tier == "quick" else cases
    # every kind of item through every way of taking it (waiting consumer / item already there), body ending either way
    for kind in range(len(ITEM_KINDS)):
        for maxsize in (0, 1):
            for put_first in (True, False):
                for end in ("ret", "raise"):
                    for body in ([], [["yield", 1]]):
                        a = {"op": "put", "n": 2, "kinds": [kind, kind]}
                        b = {"op": "consumer", "body": body, "end": end, "n": 2}
                        steps = [a, b] if put_first else [b, {"op": "tick", "k": 1}, a]
                        steps += [{"op": "joiner"}, {"op": "settle"}, {"op": "put", "n": 1, "kinds": [kind]}, {"op": "agen", "how": "aclose"}, {"op": "settle"}]
                        cases.append({"maxsize": maxsize, "steps": steps})
    # put_nowait() refused on a full queue before / between / after the ordinary traffic
    for maxsize in (1, 2):
        for pre in (0, 1, 2, 3):
            for ncons in (0, 1, 2):
                for body in ([], [["wait"]]):
                    for t in (0, 1, 2):
                        steps = [{"op": "put", "n": pre, "nowait": True}] if pre else []
                        steps.append({"op": "put", "n": 2, "nowait": True})
                        if ncons:
                            steps.append({"op": "consumer", "body": body, "end": "ret", "n": ncons})
                        if t:
                            steps.append({"op": "tick", "k": t})
                        steps += [{"op": "put", "n": 2, "nowait": True}, {"op": "joiner"}, {"op": "gate", "k": 0}, {"op": "settle"},
                                  {"op": "consumer", "body": [], "end": "ret", "n": 3}, {"op": "settle"}]
                        cases.append({"maxsize": maxsize, "steps": steps})
    return cases


class C20Engine(Engine):
    pid = "C20"
    rule = ("programs over put / consumer('async with queue as item' with scripted body: yield, gated wait, return or raise) / cancel "
            "(incl. put_nowait() refused on a full queue) / (a consumer waiting for an item, inside its body, or any) / join() waiter / gate / tick, queue maxsize in {0,1,2,3}, items that are "
            "serial numbers or awkward values (None, 0, False, '', (), a fresh list, a falsy unhashable object equal to everything, an exception "
            "instance, Ellipsis); plus an "
            "enumerated sweep of a cancellation at every tick of small scenarios. Oracle: exits<=entries<=puts, no ValueError from "
            "task_done, join() waiter done at idle iff puts == exited blocks at some moment since it started, final join probe. "
            "Non-trivial: a body raised, a consumer was cancelled while waiting and one inside its body. Distinct = program hash.")
    assumptions = ["asyncio.Queue semantics of CPython 3.12", "private peek Queue._unfinished_tasks used as an additional observation only",
                   "idle detection through loop._ready/_scheduled"]
    bounds = {"quick": {"max_steps": 28}, "thorough": {"max_steps": 28}}

    def strategies(self, tier: str):
        n = 24000 if tier == "quick" else 600000
        return [("default", st.binary(min_size=NB, max_size=NB).map(decode), n)]

    def run_case(self, case: dict) -> dict:
        return QRun(case).execute()

    def nontrivial(self, case: dict, out: dict) -> bool:
        l = set(out.get("labels", ()))
        return {"body:raised", "cancel:while-waiting", "cancel:inside-body"} <= l

    def sweep(self, tier: str):
        c = sweep_cases(tier)
        return ("maxsize x body script x body end x consumers x puts x order x cancel(kind) at every tick 0..5", c, len(c))

    def floors(self):
        return {"cancel:while-waiting": 0.2, "cancel:inside-body": 0.2, "body:raised": 0.2}

    def shrink_candidates(self, case: dict) -> List[dict]:
        out = []
        for i in reversed(range(len(case["steps"]))):
            c = copy.deepcopy(case)
            del c["steps"][i]
            out.append(c)
        for i, s in enumerate(case["steps"]):
            if s.get("n", 1) > 1:
                c = copy.deepcopy(case)
                c["steps"][i]["n"] -= 1
                out.append(c)
            if s.get("body"):
                c = copy.deepcopy(case)
                c["steps"][i]["body"] = s["body"][:-1]
                out.append(c)
        return out


ENGINE = C20Engine()
