from .table import make

ENGINE = make("C11")
