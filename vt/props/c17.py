"""C17: a command does exactly what the method call would do -- translation validation against a directly driven twin."""
from __future__ import annotations

import ast
import asyncio
import copy
import inspect
from typing import Any, Dict, List, Optional, Tuple

from hypothesis import strategies as st

from ..runner import Engine
from ..sim.gen import D
from .c16 import SIMPLE, TASKPOOL

NB = 500
FUNCS = ["quick", "quick", "gated", "gated", "boom", "not_async", "alt", "alt", "decorated", "pkg", "boom_key", "boom_os"]
GROUPS = ["G", "H", "None", "True", "0", "@home", "@", '"G"', "'H'", '"', "''", "'a", 'b"', "G\\", "apply-gated-group-0", "map-quick-group-0", "start-group-0", "start-group-1", "nope", "g" * 300, "Ünï-çødé", "a=b", "x,y"]
SHORT = {  # documented short options: first letter, upper case if taken (ControlParser.add_function_arg)
    "apply": {"args": "-a", "kwargs": "-k", "num": "-n", "group_name": "-g", "end_callback": "-e", "cancel_callback": "-c"},
    "map": {"num_concurrent": "-n", "group_name": "-g", "end_callback": "-e", "cancel_callback": "-c"},
    "starmap": {"num_concurrent": "-n", "group_name": "-g", "end_callback": "-e", "cancel_callback": "-c"},
    "doublestarmap": {"num_concurrent": "-n", "group_name": "-g", "end_callback": "-e", "cancel_callback": "-c"},
    "cancel": {"msg": "-m"}, "cancel_group": {"msg": "-m"}, "cancel_all": {"msg": "-m"},
    "flush": {"return_exceptions": "-r"}, "gather_and_close": {"return_exceptions": "-r"},
}


def lit(v: Any) -> str:
    return repr(v).replace(" ", "")


def gen_value(d: D, cmd: str, pname: str) -> Any:
    if pname == "func":
        f = d.pick(FUNCS)
        return ["path", "vt.ctl.hpkg.work" if f == "pkg" else "vt.ctl.hmod." + f]
    if pname in ("end_callback", "cancel_callback"):
        f = d.pick(["ecb", "accb", "altcb", "deco_cb", "pkg"])
        return ["path", "vt.ctl.hpkg.done" if f == "pkg" else "vt.ctl.hmod." + f]
    if pname == "args":
        return ["lit", tuple(d.i(0, 9) for _ in range(d.i(0, 2)))]
    if pname == "kwargs":
        return ["lit", {k: d.i(0, 9) for k in ["a", "b"][: d.i(0, 2)]}]
    if pname == "arg_iter":
        return ["lit", [d.pick([1, 2, "s", (1, 2), None]) for _ in range(d.i(0, 4))]]
    if pname == "args_iter":
        return ["lit", [tuple(d.i(0, 5) for _ in range(d.i(0, 2))) for _ in range(d.i(0, 3))]]
    if pname == "kwargs_iter":
        return ["lit", [{k: d.i(0, 5) for k in ["a", "b"][: d.i(0, 2)]} for _ in range(d.i(0, 3))]]
    if pname in ("num", "num_concurrent"):
        return ["int", d.pick([1, 1, 2, 3, 0, -1, 5])]
    if pname == "value":
        return ["int", d.pick([0, 1, 2, 3, 10, -1, -2])]
    if pname == "group_name":
        return ["str", d.pick(GROUPS)]
    if pname == "group_names":
        return ["strs", [d.pick(GROUPS) for _ in range(d.i(0, 3))]]
    if pname == "task_ids":
        return ["ints", [d.pick([0, 0, 1, 1, 2, 3, 4, 7, -1]) for _ in range(d.i(0, 3))]]
    if pname == "msg":
        return ["str", d.pick(["bye", "x", "stop-it", "a\tb", "x\u00a0y", "", "", "None", "0", "@bye", "'bye'", '"x"', "'", '""'])]
    return ["int", d.i(0, 3)]


def decode(data: bytes) -> dict:
    d = D(data)
    simple = d.p(0.35)
    table = SIMPLE if simple else TASKPOOL
    case: Dict[str, Any] = {"cls": "SimpleTaskPool" if simple else "TaskPool", "size": d.pick([None, None, 1, 2, 3]),
                            "name": d.pick(["P", "Q", None]), "items": []}
    if simple:
        case["sfunc"] = d.pick(["quick", "gated", "gated", "boom"])
        case["sargs"] = [d.i(0, 3) for _ in range(d.i(0, 2))]
    names = sorted(table)
    heavy = ["apply", "map", "starmap", "doublestarmap", "cancel", "cancel_group", "pool_size", "flush"] if not simple else ["start", "start", "stop", "cancel", "pool_size", "stop_all"]
    for _ in range(d.i(2, 16)):
        r = d.i(0, 9)
        if r < 2:
            case["items"].append({"t": "gate", "k": d.i(0, 5)})
            continue
        if r == 2:
            if d.p(0.5):
                case["items"].append({"t": "rebind", "k": d.i(0, 3)})
            else:
                case["items"].append({"t": "tick", "k": d.i(1, 3)})
            continue
        cmd = d.pick(heavy) if d.p(0.6) else d.pick(names)
        vals: Dict[str, Any] = {}
        for pname, kind in table[cmd]:
            if kind in ("pos", "varpos"):
                vals[pname] = gen_value(d, cmd, pname)
            elif kind == "flag":
                if d.p(0.5):
                    vals[pname] = ["flag", True]
            elif d.p(0.5):  # opt / optpos
                vals[pname] = gen_value(d, cmd, pname)
        it = {"t": "cmd", "cmd": cmd, "vals": vals, "short": d.p(0.4)}
        if d.p(0.15):
            it["intform"] = d.i(1, 4)
        r3 = d.i(0, 9)
        if r3 == 0:
            it["abbr"] = True
        elif r3 == 1:
            it["repeat"] = True
        case["items"].append(it)
    case["log_debug"] = d.p(0.12)
    return case


def intform(x: int, item: dict) -> str:
    """One of the spellings int() accepts for the number: 3, 03, +3, 003, 0_3 (a task id typed with leading zeros is the same id)."""
    f = item.get("intform", 0)
    if x < 0 or not f:
        return str(x)
    return [str(x), "0" + str(x), "+" + str(x), "00" + str(x), "0_" + str(x)][f % 5]


def render(item: dict, table: dict) -> str:
    cmd = item["cmd"]
    parts = [cmd.replace("_", "-")]
    opts: List[str] = []
    pos: List[str] = []
    for pname, kind in table[cmd]:
        if pname not in item["vals"]:
            continue
        typ, v = item["vals"][pname]
        if typ in ("ints", "strs"):
            texts = [intform(x, item) if typ == "ints" else str(x) for x in v]
        elif typ == "int":
            texts = [intform(v, item)]
        elif typ == "lit":
            texts = [lit(v)]
        elif typ == "flag":
            texts = []
        else:
            texts = [str(v)]
        if kind in ("pos", "varpos", "optpos"):
            pos.extend(texts)
        else:
            flag = SHORT.get(cmd, {}).get(pname) if item.get("short") else None
            long = "--" + pname.replace("_", "-")
            if flag is None and item.get("abbr"):
                # argparse accepts any unambiguous prefix of a long option
                others = ["--" + p2.replace("_", "-") for p2, k2 in table[cmd] if p2 != pname and k2 in ("opt", "flag")] + ["--help"]
                for ln in range(3, len(long)):
                    if not any(o.startswith(long[:ln]) for o in others):
                        long = long[:ln]
                        break
            if item.get("repeat") and typ in ("int", "str") and kind == "opt":
                opts.extend([flag or long, "7" if typ == "int" else "decoy"])     # given twice: the last one counts
            opts.append(flag or long)
            opts.extend(texts)
    # options first or last -- both are legal for argparse; negative numbers after options stay positionals.
    # An empty string can only be sent as an empty token, i.e. not at the end of the line (the session strips the line).
    if "" in opts and pos:
        return " ".join(parts + opts + pos)
    return " ".join(parts + opts + pos) if item.get("short") else " ".join(parts + pos + opts)


def expressible(item: dict, table: dict) -> dict:
    """Removes an empty-string option value where no positional follows it (it cannot be put on a command line)."""
    vals = item["vals"]
    if any(t == "str" and v == "" for t, v in vals.values()):
        has_pos = any(k in ("pos",) or (k in ("varpos", "optpos") and p in vals and vals[p][1] not in ([], None)) for p, k in table[item["cmd"]])
        if not has_pos:
            item = dict(item, vals={p: tv for p, tv in vals.items() if not (tv[0] == "str" and tv[1] == "")})
    return item


def meant_kwargs(item: dict) -> Dict[str, Any]:
    from ..ctl import hmod
    out: Dict[str, Any] = {}
    for pname, (typ, v) in item["vals"].items():
        if typ == "path":
            # what the path means, resolved independently of the library: the attribute of the (imported) module or package
            import importlib
            modname, attr = v.rsplit(".", 1)
            out[pname] = getattr(importlib.import_module(modname), attr)
        elif typ == "lit":
            out[pname] = ast.literal_eval(lit(v))
        else:
            out[pname] = v
    return out


async def direct_call(pool: Any, item: dict, table: dict) -> Any:
    cmd = item["cmd"]
    kw = meant_kwargs(item)
    attr = inspect.getattr_static(type(pool), cmd)
    if isinstance(attr, property):
        if "value" in kw:
            try:
                setattr(pool, cmd, kw["value"])
            except Exception as e:
                return e
            return None
        try:
            return getattr(pool, cmd)
        except Exception as e:
            return e
    var = [p for p, k in table[cmd] if k == "varpos"]
    args: List[Any] = []
    for pname, kind in table[cmd]:
        if kind == "pos":
            args.append(kw.pop(pname))
    for pname in var:
        args.extend(kw.pop(pname, []))
    try:
        r = getattr(pool, cmd)(*args, **kw)
        if inspect.isawaitable(r):
            r = await r
        return r
    except Exception as e:
        return e


def snapshot(pool: Any, groups: List[str]) -> tuple:
    g = []
    for name in groups:
        try:
            g.append((name, tuple(sorted(pool.get_group_ids(name)))))
        except Exception as e:
            g.append((name, type(e).__name__))
    try:
        size = pool.pool_size
    except Exception as e:  # pragma: no cover
        size = type(e).__name__
    return (pool.num_running, pool.num_cancelled, pool.num_ended, pool.is_locked, pool.is_full, size, tuple(g))


class C17Engine(Engine):
    pid = "C17"
    rule = ("command programs over every command of TaskPool / SimpleTaskPool with every subset of options, long and documented short "
            "option spellings, values from each parameter's domain (ints incl. 0 and negatives, names, flags, repeated positionals, Python "
            "literals without spaces, dotted paths to harness functions incl. a raising and a non-coroutine one), interleaved with gate "
            "openings and ticks. Each program is run twice in fresh loops: pool A through a real ControlSession, twin pool B by direct calls "
            "with the meant values from a sequential executor; replies ('ok' / str(result) / str(exception); sets compared after "
            "literal_eval), public state at every idle point, worker call logs and callback logs must be equal. Non-trivial: the program "
            "has a spawning command with a container argument, a command whose call raises and a property assignment. Distinct = case hash.")
    assumptions = ["twin driven by an executor that awaits commands sequentially like ControlSession.listen",
                   "comparison only at idle points (the two paths take a different number of loop iterations)"]
    bounds = {"commands per program": "2..16"}

    def strategies(self, tier: str):
        return [("default", st.binary(min_size=NB, max_size=NB).map(decode), 3000 if tier == "quick" else 100000)]

    def nontrivial(self, case: dict, out: dict) -> bool:
        l = set(out.get("labels", ()))
        return {"cmd:spawn-with-container", "cmd:raised", "cmd:property-assignment"} <= l

    def floors(self):
        return {"cmd:raised": 0.4, "cmd:property-assignment": 0.2, "cmd:spawn-with-container": 0.3}

    def shrink_candidates(self, case: dict) -> List[dict]:
        out = []
        for i in reversed(range(len(case["items"]))):
            c = copy.deepcopy(case)
            del c["items"][i]
            out.append(c)
        for i, it in enumerate(case["items"]):
            for k in list(it.get("vals", {})):
                c = copy.deepcopy(case)
                kind = dict((TASKPOOL if case["cls"] == "TaskPool" else SIMPLE)[it["cmd"]]).get(k)
                if kind not in ("pos",):
                    del c["items"][i]["vals"][k]
                    out.append(c)
        return out

    def run_case(self, case: dict) -> dict:
        from ..ctl import hmod
        from ..ctl.harness import Sess, run_in_fresh_loop, settle
        table = TASKPOOL if case["cls"] == "TaskPool" else SIMPLE
        labels: set = set()
        groups = list(GROUPS) + ["starmap-quick-group-0", "apply-quick-group-0", "map-gated-group-0", "doublestarmap-quick-group-0"]

        def make_pool() -> Any:
            from asyncio_taskpool import SimpleTaskPool, TaskPool
            kw: Dict[str, Any] = {}
            if case.get("size") is not None:
                kw["pool_size"] = case["size"]
            if case.get("name"):
                kw["name"] = case["name"]
            if case["cls"] == "SimpleTaskPool":
                return SimpleTaskPool(getattr(hmod, case["sfunc"]), args=tuple(case.get("sargs", ())), **kw)
            return TaskPool(**kw)

        def side(via_session: bool):
            async def main() -> dict:
                hmod.reset()
                # each side starts like a fresh process as far as the re-exporting package goes: not imported yet
                import sys
                for m in [k for k in sys.modules if k == "vt.ctl.hpkg" or k.startswith("vt.ctl.hpkg.")]:
                    del sys.modules[m]
                sys.modules["vt.ctl"].__dict__.pop("hpkg", None)
                pool = make_pool()
                replies: List[str] = []
                snaps: List[tuple] = []
                raw_counts: List[int] = []
                if via_session:
                    s = Sess(pool)
                    await s.start()
                    if s.handshake_error is not None:
                        return {"handshake_error": repr(s.handshake_error)}
                else:
                    q: asyncio.Queue = asyncio.Queue()

                    async def executor() -> None:
                        while True:
                            it = await q.get()
                            r = await direct_call(pool, it, table)
                            replies.append("ok" if r is None else str(r))
                            if isinstance(r, Exception):
                                labels.add("cmd:raised")
                    ex = asyncio.ensure_future(executor())
                for it in case["items"]:
                    if it["t"] == "cmd":
                        if via_session:
                            s.feed(render(it, table))
                        else:
                            q.put_nowait(it)
                    elif it["t"] == "gate":
                        hmod.open_gate(it["k"])
                    elif it["t"] == "rebind":
                        hmod.rebind(it["k"])
                    else:
                        for _ in range(it["k"]):
                            await asyncio.sleep(0)
                    await settle()
                    if via_session:
                        for wri in s.new_writes():
                            replies.append(wri.decode())
                    snaps.append(snapshot(pool, groups))
                for _ in range(30):
                    hmod.open_all()
                    await settle()
                    if not hmod.gates:
                        break
                if via_session:
                    for wri in s.new_writes():
                        replies.append(wri.decode())
                    alive = s.alive()
                    escaped = repr(s.escaped) if s.escaped else None
                else:
                    alive, escaped = True, None
                # everything is recorded before either side is torn down (cancelling a waiting gather_and_close changes the pool)
                snaps.append(snapshot(pool, groups))
                result = {"replies": list(replies), "snaps": snaps, "calls": list(hmod.calls), "cbs": list(hmod.cbs), "alive": alive, "escaped": escaped}
                if via_session:
                    s.stop()
                else:
                    ex.cancel()
                return result
            return run_in_fresh_loop(main, debug_log=bool(case.get("log_debug")))

        viol: List[dict] = []

        def fail(clause: str, detail: str) -> None:
            if not any(v["clause"] == clause for v in viol):
                viol.append({"props": ["C17"], "clause": clause, "detail": detail[:400], "opno": 0})

        case = dict(case, items=[expressible(it, table) if it["t"] == "cmd" else it for it in case["items"]])
        for it in case["items"]:
            if it["t"] == "cmd":
                if it["cmd"] in ("apply", "map", "starmap", "doublestarmap") and any(v[0] == "lit" for v in it["vals"].values()):
                    labels.add("cmd:spawn-with-container")
                attr_is_prop = it["cmd"] in ("pool_size",) and "value" in it["vals"]
                if attr_is_prop:
                    labels.add("cmd:property-assignment")
        a, aout, aerr, aerror = side(True)
        b, bout, berr, berror = side(False)
        error = aerror or berror
        if aerror and aerror.startswith("LIB:"):
            return {"violations": [{"props": ["C17"], "clause": "library/undocumented-exception-escaped", "detail": aerror[4:], "opno": 0}],
                    "labels": sorted(labels), "stats": {}, "inconclusive": None, "error": None}
        if error or a is None or b is None:
            return {"violations": [], "labels": sorted(labels), "stats": {}, "inconclusive": None, "error": error or "no result"}
        if "handshake_error" in a:
            fail("handshake/failed", a["handshake_error"])
            return {"violations": viol, "labels": sorted(labels), "stats": {}, "inconclusive": None, "error": None}
        if aout or aerr:
            fail("io/printed-on-server-stdio", (aout + aerr)[:200])
        if not a["alive"]:
            fail("session/died", str(a["escaped"]))
        ra = [r[:-1] if r.endswith("\n") else r + "<no newline>" for r in a["replies"]]
        rb = b["replies"]
        lines = [render(it, table) for it in case["items"] if it["t"] == "cmd"]
        if len(ra) != len(rb):
            fail("reply/count", f"session wrote {len(ra)} replies, {len(rb)} commands executed directly; lines {lines}")
        for i, (x, y) in enumerate(zip(ra, rb)):
            if x == y:
                continue
            try:
                if ast.literal_eval(x) == ast.literal_eval(y):
                    continue
            except Exception:
                pass
            fail("reply/text-differs-from-direct-call", f"line {lines[i]!r}: session {x!r}, direct {y!r}")
            break
        for i, (x, y) in enumerate(zip(a["snaps"], b["snaps"])):
            if x != y:
                fail("state/differs-from-direct-call", f"after item {i} ({lines[:i + 1][-1:]}): session {x}, direct {y}")
                break
        if a["calls"] != b["calls"]:
            fail("effect/worker-call-log-differs", f"session {a['calls'][:6]}, direct {b['calls'][:6]}")
        if sorted(a["cbs"]) != sorted(b["cbs"]):
            fail("effect/callback-log-differs", f"session {a['cbs'][:6]}, direct {b['cbs'][:6]}")
        return {"violations": viol, "labels": sorted(labels), "stats": {}, "inconclusive": None, "error": None}


ENGINE = C17Engine()
