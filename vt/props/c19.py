"""C19: control server lifecycle over real sockets (TCP on 127.0.0.1:0, Unix socket in a per-case temp dir, CLI subprocess)."""
from __future__ import annotations

import asyncio
import copy
import json
import os
import shutil
import subprocess
import sys
import tempfile
from typing import Any, Dict, List, Optional

from hypothesis import strategies as st

from ..common import SRC
from ..runner import Engine
from ..sim.gen import D

NB = 200
BOUND = 5.0          # generous bound for effects that take milliseconds
def _have_ipv6() -> bool:
    import socket
    try:
        s = socket.socket(socket.AF_INET6, socket.SOCK_STREAM)
        s.bind(("::1", 0))
        s.close()
        return True
    except OSError:
        return False


HAVE_IPV6 = _have_ipv6()
CMDS = [("num-running", "0"), ("is-locked", "False"), ("pool-size", "inf"), ("num-ended", "0"), ("is-full", "False")]


SERVER_KWARGS = [{"start_serving": False}, {"start_serving": True}, {"backlog": 1}, {"backlog": 7, "start_serving": False}, {"limit": 2 ** 12}]


def decode(data: bytes) -> dict:
    d = D(data)
    case: Dict[str, Any] = {"transport": d.pick(["tcp", "unix"]), "n": d.pick([0, 1, 1, 2, 2, 3]), "events": []}
    n = case["n"]
    # events follow the clients' states, so that most of them mean something: 0 not connected, 1 connected without handshake,
    # 2 handshake done, 3 waiting in a blocking command
    st_ = [0] * n
    for _ in range(d.i(0, 14) if n else 0):
        c = d.i(0, n - 1)
        r = d.i(0, 99)
        if st_[c] == 0 or r >= 96:
            hs = not d.p(0.25)
            case["events"].append({"e": "connect", "c": c, "handshake": hs, "split": d.p(0.3)})
            if st_[c] == 0:
                st_[c] = 2 if hs else 1
        elif st_[c] == 1:
            if r < 60:
                case["events"].append({"e": "handshake", "c": c})
                st_[c] = 2
            elif r < 80:
                case["events"].append({"e": "cmd", "c": c, "k": d.i(0, len(CMDS) - 1)})      # sends the handshake now
                st_[c] = 2
            else:
                case["events"].append({"e": "disc", "c": c, "how": d.pick(["close", "eof", "abort", "reset"])})
                st_[c] = 0
        elif st_[c] == 2:
            if r < 45:
                case["events"].append({"e": "cmd", "c": c, "k": d.i(0, len(CMDS) - 1)})
            elif r < 55:
                case["events"].append({"e": "pipeline", "c": c, "k": d.i(0, len(CMDS) - 1), "k2": d.i(0, len(CMDS) - 1)})
            elif r < 68:
                case["events"].append({"e": "block", "c": c})
                st_[c] = 3
            else:
                case["events"].append({"e": "disc", "c": c, "how": d.pick(["close", "eof", "abort", "reset"])})
                st_[c] = 0
        else:
            if r < 50:
                case["events"].append({"e": "disc", "c": c, "how": d.pick(["close", "eof", "abort", "reset"])})
                st_[c] = 0
            else:
                others = [o for o in range(n) if st_[o] == 2]
                if others:
                    case["events"].append({"e": "cmd", "c": others[d.i(0, len(others) - 1)], "k": d.i(0, len(CMDS) - 1)})
    case["stop_at"] = d.i(0, len(case["events"]))
    case["cli"] = d.p(0.04)
    case["restart"] = d.p(0.3)
    case["dual"] = d.p(0.2)
    case["restart_early"] = d.p(0.15)
    if case["transport"] == "tcp" and d.p(0.25):
        case["host"] = "::1"          # TCP over the IPv6 loopback (peer names are 4-tuples there)
    if case["transport"] == "unix" and d.p(0.25):
        case["stale"] = True          # a socket file left behind at the address by an earlier process (asyncio replaces it)
    case["log_debug"] = d.p(0.12)
    case["port_str"] = case["transport"] == "tcp" and d.p(0.25)
    case["uni_name"] = d.p(0.25)          # the pool's name is any text
    case["crlf"] = d.p(0.2)
    case["busy"] = d.p(0.35) and not case["cli"]       # the pool has two running tasks all along: clients come and go around them
    if d.p(0.3):
        # keyword arguments the server passes through to asyncio.start_server / start_unix_server
        case["kwargs"] = d.pick(SERVER_KWARGS)
    return case


class Client:
    def __init__(self) -> None:
        self.r: Optional[asyncio.StreamReader] = None
        self.w: Optional[asyncio.StreamWriter] = None
        self.shaken = False
        self.blocked = False


class C19Engine(Engine):
    pid = "C19"
    counter = 0
    rule = ("cases: transport in {tcp, unix} x 0..3 raw stream clients (+ the bundled CLI client as a subprocess in a few cases) x server keyword arguments (none, "
            "start_serving, backlog, limit) x generated orders of connect (with / without handshake) / command / disconnect (close, EOF, abort) x position of the stop (cancel of the "
            "serving task). Oracle: serve_forever() returns a task within the bound; handshake reply is the pool name; commands are answered "
            "while other clients are connected; a disconnect changes neither the pool nor other sessions; after the cancel and once all "
            "clients are gone the serving task completes, is_serving() is false, new connections fail, the unix socket file is gone; the CLI "
            "prints the pool name and replies. Waits are bounded (5 s); an expired bound is a violation only with the structural witness (all "
            "client transports closed, serving task not done, loop idle on consecutive polls), otherwise inconclusive. Non-trivial: >= 2 "
            "clients and the stop issued while >= 1 is connected. Distinct = case hash.")
    assumptions = ["loopback TCP and Unix sockets are available in the sandbox", "kernel timing is not owned: bounded waits, inconclusive rather than alarm"]
    bounds = {"clients": "0..3", "events": "<=14", "bound_s": BOUND}

    def strategies(self, tier: str):
        def with_cli(b: bytes) -> dict:
            c = decode(b)
            c["cli"] = True
            return c
        return [("default", st.binary(min_size=NB, max_size=NB).map(decode), 800 if tier == "quick" else 20000),
                ("cli-subprocess", st.binary(min_size=NB, max_size=NB).map(with_cli), 16 if tier == "quick" else 200)]

    def nontrivial(self, case: dict, out: dict) -> bool:
        l = set(out.get("labels", ()))
        return case["n"] >= 2 and "stop:while-client-connected" in l

    def floors(self):
        return {"stop:while-client-connected": 0.2, "transport:tcp": 0.3, "transport:unix": 0.3}

    def shrink_candidates(self, case: dict) -> List[dict]:
        out = []
        for i in reversed(range(len(case["events"]))):
            c = copy.deepcopy(case)
            del c["events"][i]
            c["stop_at"] = min(c["stop_at"], len(c["events"]))
            out.append(c)
        for key in ("cli", "dual", "restart", "restart_early", "busy", "log_debug", "port_str", "uni_name", "crlf"):
            if case.get(key):
                c = copy.deepcopy(case)
                c[key] = False
                out.append(c)
        for key in ("kwargs", "host", "stale"):
            if key in case:
                c = copy.deepcopy(case)
                del c[key]
                out.append(c)
        return out

    def run_case(self, case: dict) -> dict:
        from ..ctl.harness import run_in_fresh_loop
        viol: List[dict] = []
        labels: set = set()
        state: Dict[str, Any] = {"inconclusive": None}

        def fail(clause: str, detail: str = "") -> None:
            if not any(v["clause"] == clause for v in viol):
                viol.append({"props": ["C19"], "clause": clause, "detail": detail[:300], "opno": 0})

        tmp = tempfile.mkdtemp(prefix="vt-c19-")
        path = os.path.join(tmp, "ctl.sock")

        async def main() -> None:
            from asyncio_taskpool import TaskPool
            from asyncio_taskpool.control.server import TCPControlServer, UnixControlServer
            # unique per process and case: several shards open servers on ephemeral ports of the same host at the same time
            C19Engine.counter += 1
            pname = f"S{os.getpid()}x{C19Engine.counter}" + ("-näme-日本" if case.get("uni_name") else "")
            pool = TaskPool(name=pname)
            full = ("TaskPool-" + pname).encode()
            if case.get("busy") and not case.get("cli"):
                from ..ctl import hmod
                hmod.reset()
                pool.apply(hmod.gated, num=2)
                for _ in range(4):
                    await asyncio.sleep(0)
                labels.add("pool:two-tasks-running-throughout")
                if pool.num_running != 2:
                    state["inconclusive"] = "busy pool not up"
            labels.add("transport:" + case["transport"])
            skw = dict(case.get("kwargs") or {})
            if skw:
                labels.add("server-kwargs:" + ",".join(sorted(skw)))
            if case["transport"] == "tcp":
                host = case.get("host", "127.0.0.1")
                if host == "::1" and not HAVE_IPV6:
                    host = "127.0.0.1"
                # the port may be given as a string (the signature says int | str)
                server: Any = TCPControlServer(pool, host=host, port="0" if case.get("port_str") else 0, **skw)
                if case.get("port_str"):
                    labels.add("tcp-port-given-as-string")
                labels.add("tcp-host:" + host)
            else:
                if case.get("stale"):
                    import socket as _socket
                    sk = _socket.socket(_socket.AF_UNIX)
                    sk.bind(path)
                    sk.close()
                    labels.add("unix:stale-socket-file-at-the-address")
                server = UnixControlServer(pool, socket_path=path, **skw)
            try:
                task = await asyncio.wait_for(server.serve_forever(), BOUND)
            except asyncio.TimeoutError:
                fail("serve_forever/did-not-return", "")
                return
            except Exception as e:
                fail("serve_forever/raised", repr(e))
                return
            if not isinstance(task, asyncio.Task):
                fail("serve_forever/no-task-returned", repr(task))
                return
            await asyncio.sleep(0)
            if not server.is_serving():
                fail("serve_forever/not-serving-after-return", "")
            port = None
            if case["transport"] == "tcp":
                port = server._server.sockets[0].getsockname()[1]

            # optionally a second server of the other transport on the same pool, with a client of its own
            other: Dict[str, Any] = {}
            if case.get("dual"):
                labels.add("two-servers-one-pool")
                path2 = path + ".2"
                srv2: Any = UnixControlServer(pool, socket_path=path2) if case["transport"] == "tcp" else TCPControlServer(pool, host="127.0.0.1", port=0)
                try:
                    task2nd = await asyncio.wait_for(srv2.serve_forever(), BOUND)
                    if case["transport"] == "tcp":
                        r2, w2 = await asyncio.wait_for(asyncio.open_unix_connection(path2), BOUND)
                    else:
                        r2, w2 = await asyncio.wait_for(asyncio.open_connection("127.0.0.1", srv2._server.sockets[0].getsockname()[1]), BOUND)
                    w2.write(json.dumps({"terminal_width": 80}).encode() + b"\n")
                    await w2.drain()
                    n2 = await asyncio.wait_for(r2.readline(), BOUND)
                    if n2 != full + b"\n":
                        fail("dual/handshake-on-second-server", repr(n2))
                    other = {"srv": srv2, "task": task2nd, "r": r2, "w": w2, "path": path2}
                except asyncio.TimeoutError:
                    state["inconclusive"] = "second server slow"
                except Exception as e:
                    fail("dual/second-server-failed", repr(e))

            async def open_conn():
                nonlocal port
                if case["transport"] == "tcp":
                    return await asyncio.wait_for(asyncio.open_connection(host, port), BOUND)
                return await asyncio.wait_for(asyncio.open_unix_connection(path), BOUND)

            async def idle_witness() -> bool:
                """Structural witness for 'it is not going to happen': the loop has nothing to run on consecutive polls."""
                loop = asyncio.get_event_loop()
                quiet = 0
                for _ in range(6):
                    await asyncio.sleep(0.05)
                    if not loop._ready:  # type: ignore[attr-defined]
                        quiet += 1
                return quiet >= 5

            clients = [Client() for _ in range(case["n"])]
            stopped = False

            def snap() -> tuple:
                return (pool.num_running, pool.num_cancelled, pool.num_ended, pool.is_locked, pool.pool_size)

            async def do_stop() -> None:
                nonlocal stopped
                stopped = True
                if any(c.w is not None for c in clients):
                    labels.add("stop:while-client-connected")
                task.cancel()
                await asyncio.sleep(0.01)

            async def ask(c: Client, k: int) -> None:
                line, want = CMDS[k]
                if line == "num-running":
                    want = str(pool.num_running)
                try:
                    c.w.write(line.encode() + (b"\r\n" if case.get("crlf") else b"\n"))  # type: ignore[union-attr]   (some clients end lines with CR LF)
                    await c.w.drain()  # type: ignore[union-attr]
                    reply = await asyncio.wait_for(c.r.readline(), BOUND)  # type: ignore[union-attr]
                except asyncio.TimeoutError:
                    if await idle_witness():
                        fail("command/no-reply-within-bound", f"{line} (stopped={stopped})")
                    else:
                        state["inconclusive"] = "reply slow"
                    return
                except (ConnectionError, OSError) as e:
                    fail("command/connection-broken", f"{line}: {e!r} (stopped={stopped})")
                    return
                if stopped:
                    # the session answers the line it was waiting for and then ends, or the connection is already closing
                    if reply not in (want.encode() + b"\n", b""):
                        fail("command/wrong-reply-after-stop", f"{line}: {reply!r}")
                    if reply == b"" or True:
                        return
                if reply != want.encode() + b"\n":
                    fail("command/wrong-reply", f"{line}: {reply!r}, expected {want!r}")

            for i, ev in enumerate(case["events"] + [None]):
                if i == case["stop_at"] and not stopped:
                    if case.get("cli"):
                        await self.cli_client(case, port, path, fail, labels, full)
                        for o in clients:
                            if o.w is not None and o.shaken:
                                await ask(o, 0)      # sessions of other clients are unaffected by the CLI client's visit
                    await do_stop()
                if ev is None:
                    break
                c = clients[ev["c"]]
                before = snap()
                if ev["e"] == "connect":
                    if c.w is not None:
                        continue
                    try:
                        c.r, c.w = await open_conn()
                    except (ConnectionError, FileNotFoundError, OSError, asyncio.TimeoutError) as e:
                        c.r = c.w = None
                        if isinstance(e, asyncio.TimeoutError):
                            state["inconclusive"] = "connect slow"
                        elif not stopped:
                            fail("connect/refused-while-serving", repr(e))
                        continue
                    c.shaken = False
                    c.blocked = False
                    c.hs_sent = bool(ev.get("handshake", True))
                    if ev.get("handshake", True):
                        hs = json.dumps({"terminal_width": 80}).encode() + b"\n"
                        if ev.get("split"):
                            c.w.write(hs[:7])           # the handshake line arrives in two pieces
                            try:
                                await c.w.drain()
                            except (ConnectionError, OSError):
                                pass
                            await asyncio.sleep(0.005)
                            c.w.write(hs[7:])
                        else:
                            c.w.write(hs)
                        try:
                            await c.w.drain()
                            name = await asyncio.wait_for(c.r.readline(), BOUND)
                        except asyncio.TimeoutError:
                            if not stopped:
                                if await idle_witness():
                                    fail("handshake/no-reply-within-bound", "")
                                else:
                                    state["inconclusive"] = "handshake slow"
                            continue
                        except (ConnectionError, OSError):
                            name = b""
                        if name == full + b"\n":
                            c.shaken = True
                        elif not stopped:
                            fail("handshake/wrong-reply", repr(name))
                    else:
                        labels.add("connect:without-handshake")
                elif ev["e"] == "cmd":
                    if c.w is not None and not c.shaken and not getattr(c, "hs_sent", True) and not stopped and not getattr(c, "blocked", False):
                        ev = dict(ev, e="handshake")      # a client that connected without a handshake sends it now
                    elif c.w is None or not c.shaken:
                        continue
                    else:
                        await ask(c, ev["k"])
                        if stopped:
                            c.shaken = False       # that session may legitimately have ended after this line
                if ev["e"] == "handshake":
                    if c.w is None or c.shaken or stopped or getattr(c, "blocked", False) or getattr(c, "hs_sent", False):
                        continue
                    c.hs_sent = True  # type: ignore[attr-defined]
                    labels.add("late-handshake")
                    try:
                        c.w.write(json.dumps({"terminal_width": 80}).encode() + b"\n")
                        await c.w.drain()
                        name = await asyncio.wait_for(c.r.readline(), BOUND)
                    except asyncio.TimeoutError:
                        if await idle_witness():
                            fail("handshake/no-reply-within-bound", "late handshake")
                        continue
                    except (ConnectionError, OSError):
                        name = b""
                    if name == full + b"\n":
                        c.shaken = True
                        await ask(c, 0)
                    else:
                        fail("handshake/wrong-reply", f"late handshake: {name!r}")
                elif ev["e"] == "block":
                    if c.w is None or not c.shaken or stopped or getattr(c, "blocked", False):
                        continue
                    # a command whose method waits (nobody closes the pool here): no reply now, and nobody else is held up
                    try:
                        c.w.write(b"until-closed\n")
                        await c.w.drain()
                    except (ConnectionError, OSError):
                        continue
                    c.blocked = True  # type: ignore[attr-defined]
                    c.shaken = False          # this session is busy from now on
                    labels.add("client-blocked-in-until-closed")
                    await asyncio.sleep(0.01)
                    for o in clients:
                        if o is not c and o.w is not None and o.shaken:
                            await ask(o, 0)
                            labels.add("served-while-another-client-blocks")
                elif ev["e"] == "pipeline":
                    if c.w is None or not c.shaken or stopped:
                        continue
                    # two command lines in one segment: two replies, in order
                    (l1, w1), (l2, w2) = CMDS[ev["k"]], CMDS[ev["k2"]]
                    w1 = str(pool.num_running) if l1 == "num-running" else w1
                    w2 = str(pool.num_running) if l2 == "num-running" else w2
                    labels.add("pipelined-commands")
                    try:
                        c.w.write(l1.encode() + b"\n" + l2.encode() + b"\n")
                        await c.w.drain()
                        r1 = await asyncio.wait_for(c.r.readline(), BOUND)
                        r2 = await asyncio.wait_for(c.r.readline(), BOUND)
                    except asyncio.TimeoutError:
                        if await idle_witness():
                            fail("command/pipelined-lines-not-both-answered", f"{l1} + {l2}")
                        else:
                            state["inconclusive"] = "reply slow"
                        continue
                    except (ConnectionError, OSError) as e:
                        fail("command/connection-broken", f"{l1}+{l2}: {e!r}")
                        continue
                    if (r1, r2) != (w1.encode() + b"\n", w2.encode() + b"\n"):
                        fail("command/pipelined-replies-wrong", f"{l1} + {l2}: {r1!r} {r2!r}")
                elif ev["e"] == "disc":
                    if c.w is None:
                        continue
                    labels.add("disconnect:" + ev["how"])
                    if getattr(c, "blocked", False):
                        state["left_while_blocked"] = True
                    try:
                        if ev["how"] == "eof" and c.w.can_write_eof():
                            c.w.write_eof()
                            await asyncio.sleep(0.01)
                        if ev["how"] == "reset":
                            import socket
                            import struct
                            sock = c.w.get_extra_info("socket")
                            if sock is not None and case["transport"] == "tcp":
                                sock.setsockopt(socket.SOL_SOCKET, socket.SO_LINGER, struct.pack("ii", 1, 0))   # close() sends RST
                            c.w.transport.abort()
                        elif ev["how"] == "abort":
                            c.w.transport.abort()
                        else:
                            c.w.close()
                            try:
                                await asyncio.wait_for(c.w.wait_closed(), BOUND)
                            except Exception:
                                pass
                    except Exception:
                        pass
                    c.r = c.w = None
                    c.shaken = False
                    await asyncio.sleep(0.01)
                    if snap() != before:
                        fail("disconnect/changed-the-pool", f"{before} -> {snap()}")
                    if not stopped:
                        for o in clients:
                            if o is not c and o.w is not None and o.shaken:
                                await ask(o, 0)
                                labels.add("disconnect:other-session-still-answers")

            if other:
                # the second server's client is still served, whatever happened on the first server
                try:
                    other["w"].write(b"num-running\n")
                    await other["w"].drain()
                    rep = await asyncio.wait_for(other["r"].readline(), BOUND)
                    if rep != str(pool.num_running).encode() + b"\n":
                        fail("dual/second-server-client-not-served", repr(rep))
                except asyncio.TimeoutError:
                    if await idle_witness():
                        fail("dual/second-server-client-not-served", "no reply")
                except (ConnectionError, OSError) as e:
                    fail("dual/second-server-client-not-served", repr(e))
                other["w"].close()
                other["task"].cancel()
                try:
                    await asyncio.wait_for(asyncio.shield(other["task"]), BOUND)
                except asyncio.TimeoutError:
                    if await idle_witness():
                        fail("dual/second-server-never-completes", "")
                except asyncio.CancelledError:
                    pass
                if case["transport"] == "tcp" and os.path.exists(other["path"]):
                    fail("dual/second-unix-socket-file-left-behind", other["path"])
            if not stopped:
                await do_stop()
            early: Dict[str, Any] = {}
            if case.get("restart_early") and any(c.w is not None for c in clients) and not state.get("left_while_blocked") \
                    and not any(getattr(c, "blocked", False) for c in clients):
                # started again while clients of the stopped incarnation are still connected
                labels.add("restart-while-old-clients-connected")
                if case["transport"] == "unix":
                    for _ in range(100):      # the old socket file is unlinked by the old task only once its clients are gone
                        break
                try:
                    if case["transport"] == "tcp":
                        early["task"] = await asyncio.wait_for(server.serve_forever(), BOUND)
                        port = server._server.sockets[0].getsockname()[1]
                except Exception as e:
                    fail("restart/serve_forever-failed", repr(e))
            # every client leaves
            for c in clients:
                if c.w is not None and getattr(c, "blocked", False):
                    state["left_while_blocked"] = True
                if c.w is not None:
                    try:
                        c.w.close()
                        await asyncio.wait_for(c.w.wait_closed(), BOUND)
                    except Exception:
                        pass
                    c.r = c.w = None
            if early.get("task") is not None:
                # the old clients are gone now; the new incarnation must be unaffected by the old task finishing
                try:
                    await asyncio.wait_for(asyncio.shield(task), BOUND)
                except (asyncio.TimeoutError, asyncio.CancelledError):
                    pass
                await asyncio.sleep(0.01)
                if not server.is_serving() or early["task"].done():
                    fail("restart/new-incarnation-stopped-by-the-old-one", f"is_serving={server.is_serving()} task done={early['task'].done()}")
                else:
                    try:
                        r, w = await open_conn()
                        w.write(json.dumps({"terminal_width": 80}).encode() + b"\n")
                        await w.drain()
                        name = await asyncio.wait_for(r.readline(), BOUND)
                        w.write(b"num-running\n")
                        await w.drain()
                        rep = await asyncio.wait_for(r.readline(), BOUND)
                        if (name, rep) != (full + b"\n", str(pool.num_running).encode() + b"\n"):
                            fail("restart/new-incarnation-does-not-serve", f"{name!r} {rep!r}")
                        w.close()
                    except asyncio.TimeoutError:
                        if await idle_witness():
                            fail("restart/new-incarnation-does-not-serve", "no reply")
                    except (ConnectionError, OSError) as e:
                        fail("restart/new-incarnation-does-not-serve", repr(e))
                early["task"].cancel()
                try:
                    await asyncio.wait_for(asyncio.shield(early["task"]), BOUND)
                except (asyncio.TimeoutError, asyncio.CancelledError):
                    pass
                return
            try:
                await asyncio.wait_for(asyncio.shield(task), 1.0 if state.get("left_while_blocked") else BOUND)
            except asyncio.TimeoutError:
                # structural witness: no client transport open, task not done, loop idle on consecutive polls
                idle = 0
                for _ in range(5):
                    await asyncio.sleep(0.05)
                    loop = asyncio.get_event_loop()
                    if not loop._ready and not task.done():  # type: ignore[attr-defined]
                        idle += 1
                if idle >= 4 and not task.done():
                    if state.get("left_while_blocked"):
                        # open finding D10: a client that leaves while its session waits in a blocking command is never noticed
                        fail("stop/never-completes-client-left-during-waiting-command",
                             "a client sent until-closed and disconnected; serving task cancelled, not done after %.0fs" % BOUND)
                    else:
                        fail("stop/serving-task-never-completes", "all clients gone, task cancelled, not done after %.0fs" % BOUND)
                else:
                    state["inconclusive"] = "serving task slow to complete"
                return
            except asyncio.CancelledError:
                pass
            except Exception as e:
                fail("stop/serving-task-raised", repr(e))
            labels.add("stop:completed")
            if server.is_serving():
                fail("stop/still-serving", "")
            try:
                r, w = await open_conn()
            except (ConnectionError, FileNotFoundError, OSError):
                pass
            except asyncio.TimeoutError:
                state["inconclusive"] = "connect after stop timed out"
            else:
                # on TCP the port number may meanwhile belong to somebody else's server: ask who answers
                try:
                    w.write(json.dumps({"terminal_width": 80}).encode() + b"\n")
                    await w.drain()
                    who = await asyncio.wait_for(r.readline(), 1.0)
                except Exception:
                    who = b""
                w.close()
                if who == full + b"\n" or case["transport"] == "unix":
                    fail("stop/address-still-accepts-connections", repr(who))
                else:
                    labels.add("stop:port-reused-by-someone-else")
            if case["transport"] == "unix" and os.path.exists(path):
                fail("stop/unix-socket-file-left-behind", path)
            if not case.get("restart"):
                return
            # the same server object is started again: it must serve again, and stop again
            labels.add("restart")
            try:
                task2 = await asyncio.wait_for(server.serve_forever(), BOUND)
            except Exception as e:
                fail("restart/serve_forever-failed", repr(e))
                return
            await asyncio.sleep(0)
            if task2.done() or not server.is_serving():
                fail("restart/not-serving", f"task done={task2.done()} is_serving={server.is_serving()}")
                return
            if case["transport"] == "tcp":
                port = server._server.sockets[0].getsockname()[1]
            try:
                r, w = await open_conn()
                w.write(json.dumps({"terminal_width": 80}).encode() + b"\n")
                await w.drain()
                name = await asyncio.wait_for(r.readline(), BOUND)
                if name != full + b"\n":
                    fail("restart/handshake", repr(name))
                w.write(b"num-running\n")
                await w.drain()
                rep = await asyncio.wait_for(r.readline(), BOUND)
                if rep != str(pool.num_running).encode() + b"\n":
                    fail("restart/command", repr(rep))
                w.close()
                await asyncio.wait_for(w.wait_closed(), BOUND)
            except (ConnectionError, OSError, asyncio.TimeoutError) as e:
                fail("restart/client-not-served", repr(e))
            task2.cancel()
            try:
                await asyncio.wait_for(asyncio.shield(task2), BOUND)
            except asyncio.TimeoutError:
                state["inconclusive"] = "restarted serving task slow to complete"
                return
            except asyncio.CancelledError:
                pass
            if server.is_serving():
                fail("restart/still-serving-after-stop", "")
            if case["transport"] == "unix" and os.path.exists(path):
                fail("restart/unix-socket-file-left-behind", path)

        try:
            _, out, err, error = run_in_fresh_loop(main, debug_log=bool(case.get("log_debug")))
        finally:
            shutil.rmtree(tmp, ignore_errors=True)
        if error and error.startswith("LIB:"):
            fail("library/undocumented-exception-escaped", error[4:])
            error = None
        if out or err:
            fail("io/printed-on-server-stdio", (out + err)[:200])
        return {"violations": viol, "labels": sorted(labels), "stats": {}, "inconclusive": state["inconclusive"], "error": error}

    async def cli_client(self, case: dict, port: Any, path: str, fail: Any, labels: set, full: bytes = b"") -> None:
        args = ["tcp", ("::1" if case.get("host") == "::1" and HAVE_IPV6 else "127.0.0.1"), str(port)] if case["transport"] == "tcp" else ["unix", path]
        env = dict(os.environ, PYTHONPATH=SRC, PYTHONDONTWRITEBYTECODE="1", COLUMNS="80")
        how = "exit" if hash(json.dumps(case, sort_keys=True)) % 2 else "eof"
        proc = await asyncio.create_subprocess_exec(
            sys.executable, "-m", "asyncio_taskpool.control", *args,
            stdin=asyncio.subprocess.PIPE, stdout=asyncio.subprocess.PIPE, stderr=asyncio.subprocess.PIPE, env=env)
        try:
            # what a user types: commands, now and then an empty or blank line (the client prompts again), upper case
            variant = hash(json.dumps(case, sort_keys=True) + "v") % 3
            data = [b"num-running\nis-locked\n", b"\nnum-running\n   \n\nis-locked\n", b"NUM-RUNNING\n\t\n  is-locked  \n"][variant] + (b"exit\n" if how == "exit" else b"")
            labels.add("cli:input-variant-%d" % variant)
            out, err = await asyncio.wait_for(proc.communicate(data), 20)
        except asyncio.TimeoutError:
            proc.kill()
            fail("cli/did-not-finish", how)
            return
        text = out.decode(errors="replace")
        labels.add("cli:" + how)
        if ("Connected to " + full.decode()) not in text:
            fail("cli/pool-name-not-printed", text[:200] + err.decode(errors="replace")[-200:])
        if "\n0\n" not in text.replace("> ", "\n") or "False" not in text:
            fail("cli/replies-not-printed", text[:300])
        if "Disconnected" not in text:
            fail("cli/no-disconnect-message", text[-200:])
        elif not (text.find("Connected to") < text.find("False") < text.rfind("Disconnected")):
            fail("cli/output-out-of-order", text[:300])
        if proc.returncode != 0:
            fail("cli/exit-status", str(proc.returncode) + err.decode(errors="replace")[-200:])


ENGINE = C19Engine()
