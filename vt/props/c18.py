"""C18: a session survives any input and answers each line exactly once."""
from __future__ import annotations

import asyncio
import copy
from typing import Any, Dict, List, Optional

from hypothesis import strategies as st

from ..runner import Engine
from ..sim.gen import D
from .c16 import SIMPLE, TASKPOOL
from .c17 import GROUPS, gen_value, render, snapshot

NB = 700
FRAG = ["-h", "--help", "--", "-", "=", "%s", "%(value)s", "%", "{}", "{0}", "'", '"', "\\", "é", "ß", "→", "日本語", "\t", "  ", "lock", "apply",
        "cancel", "-r", "--msg", "--num", "1", "-1", "0x10", "1e3", "None", "()", "[", "(1,", "vt.ctl.hmod.quick", "os.system", "a.b.c", "*", "~", "$(x)",
        "`x`", ";", "|", "&&", "==SUPPRESS==", "\x7f", " ", "​", "😀", "-x", "--no-such-option", "--return", "until-closed", "flush"]
PRINTABLE = [chr(c) for c in range(33, 127)]


def gen_line(d: D, table: dict, names: List[str]) -> dict:
    r = d.i(0, 99)
    if r < 22:
        cmd = d.pick(names)
        vals: Dict[str, Any] = {}
        for pname, kind in table[cmd]:
            if kind in ("pos", "varpos") or (kind != "flag" and d.p(0.4)) or (kind == "flag" and d.p(0.4)):
                vals[pname] = ["flag", True] if kind == "flag" else gen_value(d, cmd, pname)
        it = {"t": "cmd", "cmd": cmd, "vals": vals, "short": d.p(0.4)}
        blocking = cmd in ("until_closed", "gather_and_close", "flush")
        return {"kind": "blocking" if blocking else "valid", "text": render(it, table)}
    if r < 40:
        cmd = d.pick(names + [""])
        base = cmd.replace("_", "-")
        extra = d.pick(["", "", " 1", " x", " --msg m"])
        h = d.pick(["-h", "--help"])
        text = (base + extra + " " + h).strip() if d.p(0.7) else (base + " " + h + extra).strip()
        return {"kind": "help", "text": text}
    if r < 44:
        # the argument is well-formed but the method refuses the value: answered with the message, pool untouched
        cands = ["pool-size -1", "pool-size -5", "cancel 99", "cancel 0 99", "cancel-group no-such-group", "get-group-ids no-such-group", "cancel -3"]
        if "map" in table:
            cands += ["map vt.ctl.hmod.quick [1,2] -n 0", "apply vt.ctl.hmod.not_async", "starmap vt.ctl.hmod.not_async [(1,)]", "doublestarmap vt.ctl.hmod.quick [] --num-concurrent -1"]
        return {"kind": "badvalue", "text": d.pick(cands)}
    if r < 50:
        w = d.pick(["bogus", "Lock", "LOCK", "apply_", "cancel_all", "num_running", "start-", "x", "pool_size", "getgroupids", "-lock", "--lock",
                    "exit", "quit", "EXIT", "bye", "close", "disconnect", "help", "?", '{"terminal_width":80}', "{}", "null"])      # words other programs treat specially: lines like any other
        return {"kind": "unknown", "text": w + d.pick(["", " 1", " -r", " a b c"])}
    if r < 78:
        cmd = d.pick(names)
        base = cmd.replace("_", "-")
        params = table[cmd]
        need = [p for p, k in params if k == "pos"]
        variant = d.i(0, 6)
        if variant == 0 and need:
            text = base                                              # missing required positional(s)
        elif variant == 1 and not any(k == "varpos" for _, k in params):
            text = base + " " + " ".join(["1"] * (len(need) + 1 + (1 if any(k == "optpos" for _, k in params) else 0)))  # too many
        elif variant == 2:
            text = base + " --no-such-option" + d.pick(["", " 3"])
        elif variant == 3 and any(p in ("task_ids", "num", "value") for p, _ in params):
            text = base + " " + d.pick(["x", "1.5", "one", "0x1", "1,2", "==SUPPRESS==", "None", "1_0_"])     # ill-typed int
        elif variant == 4 and any(p == "func" for p, _ in params):
            tail = " []" if cmd in ("map", "starmap", "doublestarmap") else ""
            text = base + " " + d.pick(["nomod_zz.fn", "vt.ctl.hmod.nope", "vt.ctl.nomod.f", "nomod_zz", "..", "a..b"]) + tail   # conversion failure
        elif variant == 5 and cmd in ("map", "starmap", "doublestarmap", "apply"):
            bad = d.pick(["(1,", "[1", "{1:", "x", "1+", "__import__('os')", "[1,2]]"])
            text = (base + " vt.ctl.hmod.quick " + bad) if cmd != "apply" else (base + " vt.ctl.hmod.quick --args " + bad)
        elif variant == 6 and any(p in ("task_ids", "num", "value") for p, _ in params):
            text = base + "  1"                                       # double space -> empty token where an int is expected
        elif any(p == "msg" for p, _ in params) and d.p(0.5):
            text = base + (" g " if cmd == "cancel_group" else " ") + d.pick(["--msg", "-m"])   # option without its value
        else:
            text = base + " --no-such-option"
        return {"kind": "badargs", "text": text.strip()}
    if r < 81:
        # a long line (still below the 64 KiB stream limit): its reply quotes the token, i.e. is longer than any I/O buffer size
        n = d.pick([8200, 9000, 20000, 60000])
        head = d.pick(["bogus", "cancel ", "pool-size ", "get-group-ids g ", "lock --", "\u00e9"])
        unit = d.pick(["x", "9x", "%s", "ab "])
        return {"kind": "long", "text": (head + unit * (n // len(unit) + 1))[:n].strip()}
    # junk
    n = d.i(1, 12)
    toks = []
    for _ in range(n):
        if d.p(0.6):
            toks.append(d.pick(FRAG))
        else:
            toks.append("".join(d.pick(PRINTABLE) for _ in range(d.i(1, 8))))
    text = d.pick([" ", " ", "", "  "]).join(toks)
    if d.p(0.08):
        text = (text + " ") * d.i(20, 200)
        text = text[:4000]
    text = text.strip()
    if not text.strip():
        text = "junk"
    return {"kind": "junk", "text": text}


def decode(data: bytes) -> dict:
    d = D(data)
    simple = d.p(0.35)
    table = SIMPLE if simple else TASKPOOL
    names = sorted(table)
    case: Dict[str, Any] = {"cls": "SimpleTaskPool" if simple else "TaskPool", "size": d.pick([None, 2, 3]), "width": d.pick([80, 80, 40, 120, 20, None]),
                            "nsess": d.pick([1, 1, 2, 3]), "lines": []}
    if simple:
        case["sfunc"] = d.pick(["quick", "gated"])
    for _ in range(d.i(2, 14)):
        if d.p(0.08):
            # a request and the cancellation of its group in one piece, a flush some time later
            sidx = d.i(0, case["nsess"] - 1)
            g = d.pick(["G", "H"])
            first = f"start 2" if simple else f"apply vt.ctl.hmod.gated --num 2 --group-name {g}"
            second = "cancel-all" if simple else d.pick([f"cancel-group {g}", "cancel-all"])
            case["lines"].append({"kind": "valid", "text": first, "s": sidx, "with_next": True})
            case["lines"].append({"kind": "valid", "text": second, "s": sidx})
            case["lines"].append({"kind": "blocking", "text": d.pick(["flush", "flush -r", "flush"]), "s": d.i(0, case["nsess"] - 1)})
            continue
        ln = gen_line(d, table, names)
        ln["s"] = d.i(0, case["nsess"] - 1)
        if d.p(0.1):
            ln["crlf"] = True
        if d.p(0.2):
            ln["with_next"] = True      # arrives in one piece with the following line of the same session
        case["lines"].append(ln)
    case["stop_phase"] = d.p(0.3)
    case["log_debug"] = d.p(0.12)
    return case


class C18Engine(Engine):
    pid = "C18"
    rule = ("1..3 concurrent sessions on one pool; lines: well-formed commands (incl. the blocking ones), help requests with -h/--help in any "
            "position, unknown command words, known commands with missing / surplus / ill-typed arguments, unknown options, failing dotted "
            "paths and malformed literals, and junk built from printable ASCII, unicode and argparse/format-string meta fragments up to "
            "4000 characters, and lines of 8-60 thousand characters (replies longer than an I/O buffer). Oracle: exactly one write (ending in a newline) per non-blank line, in order; the session stays alive and "
            "answers a following num-running; for lines that are not a command by construction (first token no command name, or an "
            "invalid form of a known command): pool snapshot unchanged and reply equal to the reply the same line gets in a fresh session of "
            "an identical pool; nothing on stdout/stderr; no SystemExit. Non-trivial: a help reply is immediately followed by a shorter "
            "reply in the same session and a conversion failure occurred; Distinct = case hash.")
    assumptions = ["lines are non-blank, contain no line break and stay below the 64 KiB stream limit (the statement's domain)",
                   "logging is routed to a NullHandler first, so that logging (documented) is not mistaken for printing"]
    bounds = {"lines per case": "2..14", "line length": "<=4000, long lines 8200..60002", "sessions": "1..3"}

    def strategies(self, tier: str):
        return [("default", st.binary(min_size=NB, max_size=NB).map(decode), 1500 if tier == "quick" else 60000)]

    def nontrivial(self, case: dict, out: dict) -> bool:
        l = set(out.get("labels", ()))
        return "help-then-shorter" in l and "conversion-failure" in l

    def sweep(self, tier: str):
        """Every place where a number is expected x tokens that are no number (among them argparse's and Python's own markers)."""
        tokens = ["==SUPPRESS==", "x", "1.5", "None", "0x1", "1_0_", "one", "True", "[1]", "1;2", "%d", "{}", "-", "--"]
        sites = {"TaskPool": ["cancel {t}", "cancel 0 {t}", "pool-size {t}", "apply vt.ctl.hmod.quick -n {t}", "apply vt.ctl.hmod.quick --num {t}",
                              "map vt.ctl.hmod.quick [1] -n {t}", "starmap vt.ctl.hmod.quick [(1,)] --num-concurrent {t}",
                              "doublestarmap vt.ctl.hmod.quick [] -n {t}"],
                 "SimpleTaskPool": ["cancel {t}", "pool-size {t}", "start {t}", "stop {t}"]}
        cases = []
        for cls, lines in sites.items():
            for line in lines:
                for t in tokens:
                    if t in ("-", "--") and "{t}" == line.split(" ")[-1] and line.count(" ") == 1 and t == "--":
                        continue      # 'cancel --' means 'no ids': a missing argument, still a message
                    for width in (80, 20):
                        c = {"cls": cls, "size": None, "width": width, "nsess": 1, "stop_phase": False, "lines": [
                            {"kind": "valid", "text": "num-running", "s": 0},
                            {"kind": "badargs", "text": line.format(t=t), "s": 0},
                            {"kind": "valid", "text": "num-ended", "s": 0},
                            {"kind": "help", "text": line.split(" ")[0] + " -h", "s": 0}]}
                        if cls == "SimpleTaskPool":
                            c["sfunc"] = "quick"
                        cases.append(c)
        # literals nested or chained thousands of levels deep: the conversion fails in the depths of the parser (MemoryError, RecursionError,
        # SyntaxError - whatever this interpreter says), which is a conversion failure like any other
        deep = ["(1," * 3000, "[" * 2500, "1+" * 3000 + "1", "{1:" * 1500, "-" * 4000 + "1 2"]
        for text in deep:
            for line in ("map vt.ctl.hmod.quick " + text, "apply vt.ctl.hmod.quick --args " + text, "starmap vt.ctl.hmod.quick " + text):
                cases.append({"cls": "TaskPool", "size": None, "width": 80, "nsess": 1, "stop_phase": False, "lines": [
                    {"kind": "valid", "text": "num-running", "s": 0}, {"kind": "badargs", "text": line, "s": 0}, {"kind": "valid", "text": "num-ended", "s": 0}]})
        # words that clients and shells treat specially are lines like any other for the session: answered, session usable afterwards
        for cls in ("TaskPool", "SimpleTaskPool"):
            for word in ("exit", "quit", "EXIT", "Exit", "bye", "close", "disconnect", "help", "?", "q", "stop-server", "shutdown", "\\q", ":q", "logout",
                         '{"terminal_width":80}', '{"terminal_width":', "{}", "[]", "null", '{"a":1}', '"x"'):
                for tail in ("", " now", " -h"):
                    c = {"cls": cls, "size": None, "width": 80, "nsess": 2, "stop_phase": False, "lines": [
                        {"kind": "valid", "text": "num-running", "s": 0}, {"kind": "unknown", "text": word + tail, "s": 0},
                        {"kind": "valid", "text": "num-ended", "s": 0}, {"kind": "valid", "text": "is-locked", "s": 1}]}
                    if cls == "SimpleTaskPool":
                        c["sfunc"] = "quick"
                    cases.append(c)
        return ("every place a number is expected x 14 tokens that are no number x 2 widths; plus 15 words other programs treat specially", cases, len(cases))

    def floors(self):
        return {"help-then-shorter": 0.2, "conversion-failure": 0.15, "sessions:>=2": 0.3, "kind:junk": 0.5}

    def shrink_candidates(self, case: dict) -> List[dict]:
        out = []
        for i in reversed(range(len(case["lines"]))):
            c = copy.deepcopy(case)
            del c["lines"][i]
            out.append(c)
        if case["nsess"] > 1:
            c = copy.deepcopy(case)
            c["nsess"] = 1
            for ln in c["lines"]:
                ln["s"] = 0
            out.append(c)
        for i, ln in enumerate(case["lines"]):
            if len(ln["text"]) > 8 and ln["kind"] == "junk":
                for cut in (len(ln["text"]) // 2, len(ln["text"]) - 1):
                    t = ln["text"][:cut].strip()
                    if t:
                        c = copy.deepcopy(case)
                        c["lines"][i]["text"] = t
                        out.append(c)
        return out

    def run_case(self, case: dict) -> dict:
        from ..ctl import hmod
        from ..ctl.harness import Sess, run_in_fresh_loop, settle
        table = TASKPOOL if case["cls"] == "TaskPool" else SIMPLE
        cmdnames = {k.replace("_", "-") for k in table}
        labels: set = set()
        viol: List[dict] = []
        groups = list(GROUPS)

        def fail(clause: str, detail: str) -> None:
            if not any(v["clause"] == clause for v in viol):
                viol.append({"props": ["C18"], "clause": clause, "detail": detail[:400], "opno": 0})

        def make_pool() -> Any:
            from asyncio_taskpool import SimpleTaskPool, TaskPool
            kw: Dict[str, Any] = {"name": "P"}
            if case.get("size") is not None:
                kw["pool_size"] = case["size"]
            if case["cls"] == "SimpleTaskPool":
                return SimpleTaskPool(getattr(hmod, case.get("sfunc", "quick")), **kw)
            return TaskPool(**kw)

        def not_a_command(ln: dict) -> bool:
            if ln["kind"] in ("help", "unknown", "badargs", "badvalue"):
                return True
            if ln["kind"] == "long":
                return not ln["text"].startswith("get-group-ids")
            if ln["kind"] == "junk":
                return ln["text"].strip().split(" ")[0] not in cmdnames
            return False

        async def main() -> None:
            hmod.reset()
            pool = make_pool()
            sess = [Sess(pool, width=case["width"]) for _ in range(case["nsess"])]
            for s in sess:
                await s.start()
                if s.handshake_error is not None:
                    fail("handshake/failed", repr(s.handshake_error))
                    return
            if case["nsess"] >= 2:
                labels.add("sessions:>=2")
            pending: List[List[dict]] = [[] for _ in sess]      # lines fed and not yet answered, per session
            answered: List[List[tuple]] = [[] for _ in sess]    # (line, reply)
            last_help_len: Dict[int, int] = {}

            def collect() -> None:
                for i, s in enumerate(sess):
                    for wri in s.new_writes():
                        if not pending[i]:
                            fail("reply/unsolicited-write", f"session {i}: {wri[:80]!r}")
                            continue
                        ln = pending[i].pop(0)
                        answered[i].append((ln, wri))
                        if not wri.endswith(b"\n"):
                            fail("reply/no-trailing-newline", f"{ln['text'][:60]!r}: {wri[-40:]!r}")
                        if ln["kind"] == "help":
                            last_help_len[i] = len(wri)
                        else:
                            if i in last_help_len and len(wri) < last_help_len.pop(i):
                                labels.add("help-then-shorter")

            lines = list(case["lines"])
            k = 0
            while k < len(lines):
                ln = lines[k]
                k += 1
                i = ln["s"] % len(sess)
                s = sess[i]
                if ln.get("with_next") and k < len(lines) and lines[k]["s"] % len(sess) == i and ln["kind"] != "blocking":
                    # two lines in one piece: both are fed before anything runs; the weak per-line oracle applies to the first
                    nxt = lines[k]
                    k += 1
                    labels.add("pipelined-lines")
                    for x in (ln, nxt):
                        labels.add("kind:" + x["kind"])
                        s.feed(x["text"])
                        pending[i].append(x)
                    await settle()
                    collect()
                    if not s.alive():
                        fail("session/ended-or-crashed", f"after {ln['text'][:60]!r} + {nxt['text'][:60]!r}: escaped={s.escaped!r}")
                        return
                    continue
                labels.add("kind:" + ln["kind"])
                nac = not_a_command(ln)
                before = snapshot(pool, groups) if nac else None
                calls_before = len(hmod.calls)
                was_blocked = bool(pending[i])
                s.feed(ln["text"] + ("\r" if ln.get("crlf") else ""))      # some clients end lines with CRLF
                pending[i].append(ln)
                await settle()
                collect()
                if not s.alive():
                    fail("session/ended-or-crashed", f"after {ln['text'][:80]!r}: escaped={s.escaped!r}")
                    return
                if nac and not was_blocked:
                    if pending[i]:
                        fail("reply/none-for-line", f"{ln['text'][:80]!r}")
                        return
                    after = snapshot(pool, groups)
                    if after != before or len(hmod.calls) != calls_before:
                        fail("effect/non-command-altered-pool", f"{ln['text'][:80]!r}: {before} -> {after}")
                    reply = answered[i][-1][1]
                    if b"occurred in parser trying to convert" in reply or b"invalid " in reply and b"value" in reply or b"malformed" in reply:
                        labels.add("conversion-failure")
                    if ln["kind"] == "badvalue":
                        labels.add("value-rejected-by-method")
                        continue      # its message may depend on the pool's state; only "answered once, nothing altered" applies
                    # the same line in a fresh session of an identical pool
                    fresh_pool = make_pool()
                    fs = Sess(fresh_pool, width=case["width"])
                    await fs.start()
                    fr = await fs.command(ln["text"])
                    fs.stop()
                    await settle()
                    if len(fr) == 1 and fr[0] != reply:
                        fail("reply/differs-from-fresh-session", f"{ln['text'][:60]!r}: got {reply[:120]!r}, fresh session says {fr[0][:120]!r}")
            # every session must still answer
            for i, s in enumerate(sess):
                if not pending[i]:
                    r = await s.command("num-running")
                    if len(r) != 1 or not r[0].strip().isdigit():
                        fail("session/not-usable-afterwards", f"session {i}: num-running -> {r!r}")
            # the server stops serving (serving task cancelled): each session that is waiting for input still answers
            # the next line it reads exactly once, after which it may end
            if case.get("stop_phase"):
                labels.add("server-stop-phase")
                for s in sess:
                    s.server.serving = False
                for i, s in enumerate(sess):
                    if pending[i] or not s.alive():
                        continue
                    r = await s.command("num-ended")
                    if len(r) != 1 or not r[0].strip().isdigit():
                        fail("reply/line-after-server-stop-not-answered-once", f"session {i}: {r!r}")
                    if s.escaped is not None:
                        fail("session/ended-or-crashed", f"after stop: escaped={s.escaped!r}")
                hmod.open_all()
                await settle()
                collect()
                for i, s in enumerate(sess):
                    if s.escaped is not None:
                        fail("session/ended-or-crashed", f"session {i}: escaped={s.escaped!r}")
                    s.stop()
                await settle()
                return
            # release whatever blocks, then every line must have exactly one reply
            for _ in range(20):
                hmod.open_all()
                await settle()
                if not hmod.gates:
                    break
            if any(pending):
                pool.cancel_all()
                try:
                    await asyncio.wait_for(pool.gather_and_close(return_exceptions=True), 5)
                except Exception:
                    pass
                for _ in range(20):
                    hmod.open_all()
                    await settle()
                    collect()
                    if not any(pending):
                        break
            collect()
            for i, s in enumerate(sess):
                if pending[i]:
                    fail("reply/missing-at-end", f"session {i}: {[l['text'][:40] for l in pending[i]]}")
                if not s.alive() or s.escaped is not None:
                    fail("session/ended-or-crashed", f"session {i}: escaped={s.escaped!r}")
                s.stop()
            await settle()

        _, out, err, error = run_in_fresh_loop(main, debug_log=bool(case.get("log_debug")))
        if error and error.startswith("LIB:"):
            fail("library/undocumented-exception-escaped", error[4:])
            error = None
        if out or err:
            fail("io/printed-on-server-stdio", (out + err)[:300])
        if error and "SystemExit" in error:
            fail("process/SystemExit-escaped", error)
            error = None
        return {"violations": viol, "labels": sorted(labels), "stats": {}, "inconclusive": None, "error": error}


ENGINE = C18Engine()
