"""C12: a failing task or callback harms only itself -- differential oracle against the fault-free twin run."""
from __future__ import annotations

import copy
import json
from typing import Any, Dict, List

from ..sim.gen import profile
from .simprop import SimEngine, L


def neutralize(obj: Any) -> Any:
    """The same program with every injected worker/callback fault replaced by a normal return (call-site faults stay)."""
    if isinstance(obj, dict):
        out = {}
        for k, v in obj.items():
            if k == "raise":
                continue
            if k == "ends":
                out[k] = [(["ret"] if e and e[0] == "raise" else list(e)) for e in v]     # ending by cancellation is no failure
                continue
            if k == "end":
                out[k] = ["ret"]
                continue
            out[k] = neutralize(v)
        return out
    if isinstance(obj, list):
        return [neutralize(x) for x in obj]
    return obj


class C12Engine(SimEngine):
    def run_case(self, case: dict) -> dict:
        from ..common import h8
        from ..sim.interp import Run
        # the same order of tasks in sets for the program and its fault-free twin
        case = dict(case, salt=int(h8({"pools": case.get("pools"), "steps": case.get("steps")}), 16))
        res = Run(case).execute()
        out = {"violations": list(res.violations), "labels": list(res.labels), "stats": dict(res.stats),
               "inconclusive": res.inconclusive, "error": res.error}
        if res.lib_error:
            out["violations"].append({"props": ["C12"], "clause": "library/undocumented-exception-escaped", "detail": res.lib_error, "opno": -1})
            return out
        if res.error or res.inconclusive:
            return out
        faulty = [h for h in res.history if h["faulty"] and not h["raised_at_call"]]
        if not faulty:
            return out
        twin = Run(neutralize(case)).execute()
        if twin.error or twin.inconclusive:
            out["stats"]["twin_inconclusive"] = 1
            return out
        if any(l.startswith("abandon:") for l in list(res.labels) + list(twin.labels)):
            # the program cancels the caller of a blocked flush(): whether a flush is blocked at that moment depends, by
            # documentation, on the faults (flush raises a failed task's exception at once instead of waiting): not comparable
            out["stats"]["twin_not_comparable_abandon"] = 1
            return out
        if "close:failed-pool-stays-locked" in res.labels and '"unlock"' in json.dumps(case):
            # a gather_and_close() that raised a task's exception leaves the pool open (and locked); the fault-free twin closes it for
            # good. A later unlock() therefore re-opens one and not the other - by documentation, not by leakage: not comparable
            out["stats"]["twin_not_comparable_failed_close_then_unlock"] = 1
            return out
        if any(v for v in twin.violations):
            # the twin itself misbehaves: not a differential finding; its own oracles speak in their own checks
            out["stats"]["twin_had_violations"] = 1
        a = {(h["pool"], h["rid"], h["idx"]): h for h in res.history}
        b = {(h["pool"], h["rid"], h["idx"]): h for h in twin.history}
        out["labels"].append("twin:compared")
        kinds = set()
        for h in faulty:
            kinds.add("worker" if h["how"] == "raise" else "callback")
        for k in kinds:
            out["labels"].append("fault:" + k)
        healthy = [k for k, h in a.items() if not h["faulty"]]
        if len(healthy) >= 2:
            out["labels"].append("twin:>=2-healthy")
        diffs: List[str] = []
        for k in sorted(set(a) | set(b)):
            ha, hb = a.get(k), b.get(k)
            if ha is None or hb is None:
                diffs.append(f"invocation r{k[1]}[{k[2]}] exists only {'with faults' if hb is None else 'in the fault-free twin'}")
                continue
            if ha["faulty"]:
                # the faulty task itself: same id and start position, everything else may differ
                fields = ("tid", "rank")
            else:
                fields = ("tid", "rank", "how", "cancels", "ecb", "ccb")
            for f in fields:
                if ha[f] != hb[f]:
                    diffs.append(f"r{k[1]}[{k[2]}].{f}: {ha[f]!r} with faults, {hb[f]!r} without")
        if diffs:
            out["violations"].append({"props": ["C12"], "clause": "twin/healthy-history-differs", "detail": "; ".join(diffs[:4]), "opno": -1})
        return out


def _sweep(tier: str):
    from .simprop import abandon_then_close_family, close_overlap_family, flush_raises_family
    cases = (close_overlap_family(thin=8 if tier == "quick" else 1) + flush_raises_family(thin=3 if tier == "quick" else 1)
             + abandon_then_close_family(thin=2 if tier == "quick" else 1))
    return ("close-overlap family: gather_and_close()/flush() blocked on a task in a slow callback while one of the other workers fails, "
            "returns or is let go in every order (ticks a,b in 0..2, c in 0..1, gates k in 0..3, k2 in 0..2, both return_exceptions values); plus the flush-raises and abandon-then-close families", cases, len(cases))


def _engine() -> C12Engine:
    prof = profile(p_worker_raise=0.45, p_cb_raise=0.3, p_callfault=0.25, p_cb=0.7, sizes=[1, 2, 2, 3, None], p_iter_raise=0.08, p_bad_return=0.05,
                   ops={"flush": 2, "close": 0, "spawn": 9, "gate": 8, "cancel": 1, "cancel_group": 0.5, "lock": 0.2, "stop": 0.5, "abandon": 0.6},
                   end_with_close=0.5)
    return C12Engine(
        "C12",
        "fault plans: raising workers, raising call sites and raising sync/async end/cancel callbacks among healthy work, in generated "
        "completion orders, ending in flush / gather_and_close with both return_exceptions values. Each program with a worker/callback "
        "fault is run twice: as generated and with every such fault replaced by a normal return; healthy invocations must have the "
        "identical observable history (id, start position, outcome, cancellations, callback counts). Non-trivial: the twin comparison ran "
        "with >= 2 healthy invocations. Distinct = program hash.",
        [("default", prof, 0.9), ("two-pools", dict(prof, max_pools=2), 0.1)],
        lambda case, l: "twin:compared" in l and "twin:>=2-healthy" in l,
        n_quick=3000, n_thorough=150000, floors={"twin:compared": 0.4, "fault:callback": 0.15, "fault:worker": 0.2},
        sweep=_sweep)


ENGINE = _engine()
