"""C16: any pool can be served -- handshake succeeds, full command surface with help, nothing non-public."""
from __future__ import annotations

import copy
import re
from typing import Any, Dict, List, Optional, Tuple

from hypothesis import strategies as st

from ..runner import Engine
from ..sim.gen import D

# Independently written table of the documented public API (docs/source/pages/pool.rst, control.rst and the class docstrings):
# command -> list of (parameter name, kind) with kind in {"pos", "varpos", "opt", "flag"}
BASE = {
    "pool_size": [("value", "optpos")], "is_locked": [], "lock": [], "unlock": [], "num_running": [], "num_cancelled": [], "num_ended": [],
    "is_full": [], "get_group_ids": [("group_names", "varpos")], "cancel": [("task_ids", "varpos"), ("msg", "opt")],
    "cancel_group": [("group_name", "pos"), ("msg", "opt")], "cancel_all": [("msg", "opt")],
    "flush": [("return_exceptions", "flag")], "gather_and_close": [("return_exceptions", "flag")], "until_closed": [],
}
CB = [("group_name", "opt"), ("end_callback", "opt"), ("cancel_callback", "opt")]
TASKPOOL = dict(BASE, **{
    "apply": [("func", "pos"), ("args", "opt"), ("kwargs", "opt"), ("num", "opt")] + CB,
    "map": [("func", "pos"), ("arg_iter", "pos"), ("num_concurrent", "opt")] + CB,
    "starmap": [("func", "pos"), ("args_iter", "pos"), ("num_concurrent", "opt")] + CB,
    "doublestarmap": [("func", "pos"), ("kwargs_iter", "pos"), ("num_concurrent", "opt")] + CB,
})
SIMPLE = dict(BASE, **{"func_name": [], "start": [("num", "pos")], "stop": [("num", "pos")], "stop_all": []})

MEMBERS = [
    # (source template, command table entry or None for non-public)
    ("    def extra_count{s}(self, amount: int, label: str = 'x') -> str:\n        '''Counts something.'''\n        return f'{{amount}}{{label}}'\n",
     ("extra_count{s}", [("amount", "pos"), ("label", "opt")])),
    ("    def toggle_thing{s}(self, fast: bool = False) -> bool:\n        '''Toggles.'''\n        return fast\n",
     ("toggle_thing{s}", [("fast", "flag")])),
    ("    def sum_all{s}(self, *numbers: int) -> int:\n        '''Sums.'''\n        return sum(numbers)\n",
     ("sum_all{s}", [("numbers", "varpos")])),
    ("    async def wait_a_bit{s}(self, rounds: int = 1) -> int:\n        '''Waits.'''\n        return rounds\n",
     ("wait_a_bit{s}", [("rounds", "opt")])),
    ("    @property\n    def extra_info{s}(self) -> str:\n        '''Info.'''\n        return 'info'\n",
     ("extra_info{s}", [])),
    ("    @property\n    def knob{s}(self) -> int:\n        '''Knob.'''\n        return getattr(self, '_knob', 0)\n\n    @knob{s}.setter\n    def knob{s}(self, value: int) -> None:\n        '''Sets the knob.'''\n        self._knob = value\n",
     ("knob{s}", [("value", "optpos")])),
    ("    LIMIT{s} = 5\n", "attr"),
    ("    kind_of_pool{s} = 'generated'\n", "attr"),
    ("    def _hidden{s}(self, x: int) -> int:\n        return x\n", None),
    ("    @property\n    def _secret{s}(self) -> int:\n        return 1\n", None),
    ("    @staticmethod\n    def scale{s}(factor: int, offset: int = 0) -> int:\n        '''Scales.'''\n        return factor * 2 + offset\n",
     ("scale{s}", [("factor", "pos"), ("offset", "opt")])),
    ("    def filter{s}_(self, pattern: str = '*') -> str:\n        '''Trailing underscore.'''\n        return pattern\n",
     ("filter{s}_", [("pattern", "opt")])),
    ("    def deep__scan{s}(self, level: int) -> int:\n        '''Double underscore inside the name.'''\n        return level\n",
     ("deep__scan{s}", [("level", "pos")])),
    ("    def start{s}_(self, count: int = 1) -> int:\n        '''Differs from an inherited name only by a trailing underscore.'''\n        return count\n",
     ("start{s}_", [("count", "opt")])),
    ("    def blank_doc{s}(self, n: int = 0) -> int:\n        '''   '''\n        return n\n",
     ("blank_doc{s}", [("n", "opt")])),
    ("    def empty_doc{s}(self) -> int:\n        ''''''\n        return 1\n",
     ("empty_doc{s}", [])),
    ("    @property\n    def blank_prop{s}(self) -> int:\n        ''' '''\n        return 2\n",
     ("blank_prop{s}", [])),
    ("    def maybe_num{s}(self, n: Optional[int] = None, label: Union[str, None] = None) -> str:\n        '''typing.Optional / typing.Union spellings.'''\n        return f'{{n}}-{{label}}'\n",
     ("maybe_num{s}", [("n", "opt"), ("label", "opt")])),
    ("    def tag_it{s}(self, *, label: str, times: int = 1) -> str:\n        '''Required keyword-only parameter.'''\n        return label * times\n",
     ("tag_it{s}", [("label", "pos"), ("times", "opt")])),
    ("    def shift_by{s}(self, amount: int, /, times: int = 1) -> int:\n        '''Positional-only parameter.'''\n        return amount * times\n",
     ("shift_by{s}", [("amount", "pos"), ("times", "opt")])),
    ("    def ratio_of{s}(self, part: float, whole: float = 1.0) -> float:\n        '''Ratio.'''\n        return part / whole\n",
     ("ratio_of{s}", [("part", "pos"), ("whole", "opt")])),
    # a parameter annotated with a type of the user's own module (an Enum): resolvable only in that module's namespace
    ("    def set_mode{s}(self, mode: Mode = Mode.FAST) -> str:\n        '''Sets the mode.'''\n        return mode.name\n",
     ("set_mode{s}", [("mode", "opt")])),
    # a property declared with a subclass of `property` (as many libraries' cached / typed properties are)
    ("    @myproperty\n    def fancy{s}(self) -> int:\n        '''Fancy.'''\n        return 7\n",
     ("fancy{s}", [])),
    # a public method behind a functools.wraps decorator: its command has the parameters of the decorated function
    ("    @logged\n    def bump{s}(self, amount: int, step: int = 1) -> int:\n        '''Bumps.'''\n        return amount + step\n",
     ("bump{s}", [("amount", "pos"), ("step", "opt")])),
    # mixed-case member names: the command is named after the member, only underscores become dashes
    ("    def resetStats{s}(self, hardReset: bool = False) -> int:\n        '''Resets.'''\n        return 3\n",
     ("resetStats{s}", [("hardReset", "flag")])),
    ("    def reload_Config{s}(self, Path: str = 'x') -> str:\n        '''Reloads.'''\n        return Path\n",
     ("reload_Config{s}", [("Path", "opt")])),
    # inherited public methods overridden without a docstring of their own: the description is the inherited one (inspect.getdoc)
    ("    def lock(self) -> None:\n        super().lock()\n", "override:lock"),
    ("    async def flush(self, return_exceptions: bool = False) -> None:\n        await super().flush(return_exceptions)\n", "override:flush"),
]

NB = 64


def decode(data: bytes) -> dict:
    d = D(data)
    case: Dict[str, Any] = {"base": d.pick(["TaskPool", "SimpleTaskPool", "TaskPool", "SimpleTaskPool", "sub", "sub"])}
    if case["base"] == "sub":
        case["base"] = d.pick(["TaskPool", "SimpleTaskPool"])
        n = d.i(1, 4)
        case["members"] = sorted({d.i(0, len(MEMBERS) - 1) for _ in range(n)})
        case["suffix"] = d.pick(["", "_a", "_two", "x"])
        case["postponed"] = d.p(0.5)
        case["depth"] = d.i(1, 2)      # subclass of a subclass
    r = d.i(0, 9)
    case["width"] = None if r == 9 and d.p(0.5) else d.i(1, 39) if r < 3 else d.i(201, 1000) if r < 5 else d.pick([10 ** 5, 2 ** 31, 10 ** 9]) if r == 5 else d.i(40, 200)
    case["name"] = d.pick([None, None, "P", "my-pool", "x_1"])
    if d.p(0.3):
        case["extra"] = {"foo": d.i(0, 9)}
    case["probe_private"] = d.p(0.5)
    case["log_debug"] = d.p(0.12)
    if d.p(0.3):
        # another client is already connected (to this pool, or to another pool's server in the same process): idle, or in the
        # middle of a command whose method waits
        case["neighbour"] = d.pick(["same-pool-waiting", "other-pool-waiting", "same-pool-idle", "same-pool-waiting"])
    return case


def build_class(case: dict):
    from asyncio_taskpool import SimpleTaskPool, TaskPool
    base = {"TaskPool": TaskPool, "SimpleTaskPool": SimpleTaskPool}[case["base"]]
    table = dict(TASKPOOL if case["base"] == "TaskPool" else SIMPLE)
    private: List[str] = []
    docs: Dict[str, str] = {}
    if "members" not in case:
        return base, table, private, docs
    s = case.get("suffix", "")
    src = ("from __future__ import annotations\n" if case.get("postponed") else "") + "import enum\nimport functools\nfrom typing import Optional, Union\ndef logged(fn):\n    @functools.wraps(fn)\n    def wrapper(*args, **kwargs):\n        return fn(*args, **kwargs)\n    return wrapper\n\nclass myproperty(property):\n    pass\n\nclass Mode(enum.Enum):\n    FAST = 'fast'\n    SLOW = 'slow'\n\nclass Mid(Base):\n    '''Intermediate.'''\n    pass\n\n"
    parent = "Mid" if case.get("depth", 1) == 2 else "Base"
    src += f"class GenPool({parent}):\n    '''Generated pool class.'''\n"
    for i in case["members"]:
        tmpl, entry = MEMBERS[i]
        src += tmpl.format(s=s) + "\n"
        if entry == "attr":
            continue      # a plain class attribute: no command, and no effect on the other commands
        if isinstance(entry, str) and entry.startswith("override:"):
            import inspect
            name = entry.split(":", 1)[1]
            doc = inspect.getdoc(getattr(base, name)) or ""
            if doc.strip():
                docs[name] = doc.strip().splitlines()[0]
            continue
        if entry is not None:
            table[entry[0].format(s=s)] = entry[1]
            m = re.search(r"\'\'\'(.+?)\'\'\'", tmpl)
            if m and m.group(1).strip() and "setter" not in tmpl:
                docs[entry[0].format(s=s)] = m.group(1)
        else:
            private.append(re.search(r"def (_\w+)", tmpl.format(s=s)).group(1))  # type: ignore[union-attr]
    # a real (importable-by-name) module, as a user's pool subclass lives in one: inspect.getdoc() resolves inherited docstrings through it
    import sys
    import types
    mod = types.ModuleType("vt_generated_pool_module")
    mod.__dict__["Base"] = base
    sys.modules["vt_generated_pool_module"] = mod
    exec(compile(src, "<generated pool subclass>", "exec"), mod.__dict__)
    return mod.__dict__["GenPool"], table, private, docs


def norm(text: str) -> str:
    return re.sub(r"\s+", "", text)


def option_strings(name: str, kind: str) -> List[str]:
    if kind in ("pos", "varpos", "optpos"):
        return [name]
    return ["--" + name.replace("_", "-")]


class C16Engine(Engine):
    pid = "C16"
    rule = ("cases: pool class in {TaskPool, SimpleTaskPool, generated (sub-)subclasses adding public methods/properties with simple "
            "annotated signatures, with and without postponed annotations, plus underscore members} x pool name x terminal width 1..1000 x "
            "extra handshake keys. Oracle: handshake reply == str(pool)+newline; command set (taken from the parser's own 'invalid choice' "
            "listing) == independently written API table (+generated members); '<cmd> -h' and '--help' each give one reply containing the "
            "usage and every parameter's option name; global -h lists every command; underscore members rejected. Non-trivial: generated "
            "subclass, or width < 40 or > 200. Distinct = case hash.")
    assumptions = ["the session is driven in-process through a real asyncio.StreamReader and a recording writer (vt/ctl/harness.py)",
                   "API table written from the documentation, independent of inspect.getmembers"]
    bounds = {"widths": "1..1000", "generated members": "<=4 of 28 templates", "subclass depth": "<=2"}

    def strategies(self, tier: str):
        return [("default", st.binary(min_size=NB, max_size=NB).map(decode), 1200 if tier == "quick" else 30000)]

    def nontrivial(self, case: dict, out: dict) -> bool:
        return "members" in case or case["width"] is None or case["width"] < 40 or case["width"] > 200

    def floors(self):
        return {"class:generated": 0.2, "class:TaskPool": 0.15, "class:SimpleTaskPool": 0.15}

    def shrink_candidates(self, case: dict) -> List[dict]:
        out = []
        if "members" in case:
            for i in range(len(case["members"])):
                c = copy.deepcopy(case)
                del c["members"][i]
                if not c["members"]:
                    for k in ("members", "suffix", "postponed", "depth"):
                        c.pop(k, None)
                out.append(c)
        if case.get("neighbour"):
            c = copy.deepcopy(case)
            del c["neighbour"]
            out.append(c)
        for k in ("extra", "name"):
            if case.get(k) is not None:
                c = copy.deepcopy(case)
                c[k] = None if k == "name" else None
                if k == "extra":
                    c.pop("extra")
                out.append(c)
        if case["width"] is not None and case["width"] != 80:
            c = copy.deepcopy(case)
            c["width"] = 80
            out.append(c)
        return out

    def run_case(self, case: dict) -> dict:
        from ..ctl.harness import Sess, run_in_fresh_loop, settle
        viol: List[dict] = []
        labels: List[str] = []

        def fail(clause: str, detail: str = "") -> None:
            if not any(v["clause"] == clause for v in viol):
                viol.append({"props": ["C16"], "clause": clause, "detail": detail[:300], "opno": 0})

        async def main() -> None:
            from ..ctl import hmod
            cls, table, private, docs = build_class(case)
            labels.append("class:generated" if "members" in case else "class:" + case["base"])
            kw: Dict[str, Any] = {}
            if case.get("name"):
                kw["name"] = case["name"]
            pool = cls(hmod.quick, **kw) if case["base"] == "SimpleTaskPool" else cls(**kw)
            if case.get("neighbour"):
                from asyncio_taskpool import TaskPool as _TP
                nb = Sess(pool if case["neighbour"].startswith("same") else _TP(name="neighbour"), width=997)    # a much wider terminal
                await nb.start()
                if case["neighbour"].endswith("waiting"):
                    nb.feed("until-closed")
                    await settle()
                labels.append("neighbour:" + case["neighbour"])
            s = Sess(pool, width=case["width"], extra=case.get("extra"))
            await s.start()
            if s.handshake_error is not None:
                fail("handshake/failed", repr(s.handshake_error))
                return
            if s.handshake_reply != (str(pool) + "\n").encode():
                fail("handshake/reply", repr(s.handshake_reply))
            if len(s.writer.writes) != 1:
                fail("handshake/number-of-writes", str(len(s.writer.writes)))
            # the command set, from the parser's own mouth
            r = await s.command("zz-no-such-command")
            if len(r) != 1:
                fail("surface/reply-count", f"bogus command got {len(r)} replies")
                return
            m = re.search(r"\(choose from (.*)\)", r[0].decode())
            got = set(re.findall(r"'([^']+)'", m.group(1))) if m else set()
            want = {k.replace("_", "-") for k in table}
            if got != want:
                fail("surface/command-set", f"missing {sorted(want - got)} unexpected {sorted(got - want)}")
            r = await s.command("-h")
            if len(r) != 1:
                fail("surface/global-help-reply-count", str(len(r)))
            else:
                text = norm(r[0].decode())
                for cmd in sorted(want):
                    if cmd not in text:
                        fail("surface/global-help-misses-command", cmd)
            for name, params in sorted(table.items()):
                cmd = name.replace("_", "-")
                for h in ("-h", "--help"):
                    r = await s.command(f"{cmd} {h}")
                    if not s.alive():
                        fail("help/session-died", f"{cmd} {h}: {s.escaped!r}")
                        return
                    if len(r) != 1:
                        fail("help/reply-count", f"{cmd} {h}: {len(r)} replies")
                        continue
                    # laid out for *this* client's terminal: from 80 columns on argparse never needs to overrun the width with a line
                    # it could have broken (calibrated on the unchanged tree for widths 80..1000)
                    wd = case["width"]
                    if isinstance(wd, int) and 80 <= wd <= 1000:
                        for line in r[0].decode().split("\n"):
                            if len(line) > wd and len(line.strip().split(" ")) > 1:
                                fail("help/laid-out-for-another-width", f"{cmd} {h}: width {wd}, line of {len(line)} characters")
                                break
                    # ... and from 200 columns on the usage of every command fits on its first line (the longest is ~130 characters)
                    if isinstance(wd, int) and 200 <= wd <= 1000:
                        first_block = r[0].decode().split("\n\n")[0].strip().split("\n")
                        if len(first_block) > 1 and first_block[0].startswith("usage:") and sum(len(x.strip()) + 1 for x in first_block) < wd - 2:
                            fail("help/laid-out-for-another-width", f"{cmd} {h}: width {wd}, usage broken into {len(first_block)} lines")
                    text = norm(r[0].decode())
                    if ("usage:" + cmd) not in text:
                        fail("help/no-usage", f"{cmd} {h}: {r[0][:120]!r}")
                    for pname, kind in params:
                        for o in option_strings(pname, kind):
                            if o not in text:
                                fail("help/parameter-not-described", f"{cmd} {h}: {o}")
                    if name in docs and norm(docs[name]) not in text:
                        fail("help/member-docstring-line-missing", f"{cmd} {h}: {docs[name]!r}")
            # properties of the shipped classes really are available: the getter's reply is the value, pool-size can be assigned
            for prop in ("is_locked", "num_running", "num_cancelled", "num_ended", "is_full", "pool_size") + (("func_name",) if case["base"] == "SimpleTaskPool" else ()):
                r = await s.command(prop.replace("_", "-"))
                if len(r) != 1 or r[0].decode().strip() != str(getattr(pool, prop)):
                    fail("call/property-command", f"{prop}: {r!r}, expected {getattr(pool, prop)!r}")
            for v in (3, 0, 7):
                r = await s.command(f"pool-size {v}")
                r2 = await s.command("pool-size")
                if [x.decode().strip() for x in r + r2] != ["ok", str(v)] or pool.pool_size != v:
                    fail("call/pool-size-assignment", f"pool-size {v}: {r!r} then {r2!r}, pool says {pool.pool_size!r}")
            for cmd_, want_ in (("lock", "ok"), ("is-locked", "True"), ("unlock", "ok"), ("is-locked", "False")):
                r = await s.command(cmd_)
                if len(r) != 1 or r[0].decode().strip() != want_:
                    fail("call/lock-unlock-command", f"{cmd_}: {r!r}")
            # generated members really are callable through their command
            sfx = case.get("suffix", "")
            calls = {"extra_count": ("extra-count{s} 4 --label z", "4z"), "toggle_thing": ("toggle-thing{s} --fast", "True"),
                     "sum_all": ("sum-all{s} 1 2 3", "6"), "wait_a_bit": ("wait-a-bit{s} --rounds 3", "3"), "extra_info": ("extra-info{s}", "info"),
                     "knob": ("knob{s} 5", "ok"), "scale": ("scale{s} 21 --offset 1", "43"), "filter": ("filter{s}- --pattern q", "q"),
                     "deep__scan": ("deep--scan{s} 2", "2"), "shift_by": ("shift-by{s} 3 --times 2", "6"), "tag_it": ("tag-it{s} ab --times 2", "abab"), "maybe_num": ("maybe-num{s} --n 5 --label q", "5-q"), "ratio_of": ("ratio-of{s} 1 --whole 4", "0.25"), "set_mode": ("set-mode{s} --mode slow", "SLOW"), "fancy": ("fancy{s}", "7"), "bump": ("bump{s} 4 --step 2", "6"), "resetStats": ("resetStats{s}", "3"), "reload_Config": ("reload-Config{s} --Path q", "q")}
            for name in sorted(table):
                base = name[: len(name) - len(sfx)] if sfx and name.endswith(sfx) else name
                key = base.rstrip("_") if base.rstrip("_") in calls else base
                if key in calls and name not in TASKPOOL and name not in SIMPLE:
                    line, want = calls[key]
                    r = await s.command(line.format(s=sfx.replace("_", "-")))
                    if len(r) != 1 or r[0].decode().strip() != want:
                        fail("call/generated-member-command", f"{line.format(s=sfx)!r}: {r!r}, expected {want!r}")
                    labels.append("invoked-generated-member")
            for p in private:
                if p.replace("_", "-") in got or p in got:
                    fail("surface/non-public-member-exposed", p)
                if case.get("probe_private"):
                    for spelling in (p, p.replace("_", "-")):
                        r = await s.command(spelling)
                        if len(r) != 1 or b"error:" not in r[0]:
                            fail("surface/non-public-member-accepted", f"{spelling}: {r!r}")
            for p in ("_task_wrapper", "-start-task", "_pools", "-idx"):
                if p in got:
                    fail("surface/non-public-member-exposed", p)
            if not s.alive():
                fail("session/died", repr(s.escaped))
            s.stop()
            await settle()

        _, out, err, error = run_in_fresh_loop(main, debug_log=bool(case.get("log_debug")))
        if error and error.startswith("LIB:"):
            fail("library/undocumented-exception-escaped", error[4:])
            error = None
        if out or err:
            fail("io/printed-on-server-stdio", (out + err)[:200])
        return {"violations": viol, "labels": labels, "stats": {}, "inconclusive": None, "error": error}


ENGINE = C16Engine()
