"""C09: the sim engine plus a metamorphic twin - the same program in which every request that must be rejected is not made at all."""
from __future__ import annotations

from typing import List

from .simprop import SimEngine
from .table import make

FIELDS = ("tid", "rank", "how", "cancels", "ecb", "ccb")


class C09Engine(SimEngine):
    def run_case(self, case: dict) -> dict:
        from ..sim.interp import Run
        res = Run(case).execute()
        out = {"violations": list(res.violations), "labels": list(res.labels), "stats": dict(res.stats),
               "inconclusive": res.inconclusive, "error": res.error}
        if res.lib_error:
            out["violations"].append({"props": ["C09"], "clause": "library/undocumented-exception-escaped", "detail": res.lib_error, "opno": -1})
            return out
        if res.error or res.inconclusive or not any(l.startswith("rejected:") for l in res.labels):
            return out
        twin = Run(dict(case, suppress_rejected=True)).execute()
        if twin.error or twin.inconclusive or twin.lib_error:
            out["stats"]["twin_inconclusive"] = 1
            return out
        out["labels"].append("twin:compared")
        diffs: List[str] = []
        if res.requests != twin.requests:
            a, b = res.requests, twin.requests
            for i in range(max(len(a), len(b))):
                x, y = (a[i] if i < len(a) else None), (b[i] if i < len(b) else None)
                if x != y:
                    diffs.append(f"request {i}: {x} with the rejected requests, {y} without them")
                    break
        ha = {(h["pool"], h["rid"], h["idx"]): h for h in res.history}
        hb = {(h["pool"], h["rid"], h["idx"]): h for h in twin.history}
        for k in sorted(set(ha) | set(hb)):
            x, y = ha.get(k), hb.get(k)
            if x is None or y is None:
                diffs.append(f"invocation r{k[1]}[{k[2]}] exists only {'with' if y is None else 'without'} the rejected requests")
                continue
            for f in FIELDS:
                if x[f] != y[f]:
                    diffs.append(f"r{k[1]}[{k[2]}].{f}: {x[f]!r} with the rejected requests, {y[f]!r} without them")
        if diffs:
            out["violations"].append({"props": ["C09"], "clause": "twin/rejected-requests-left-a-trace", "detail": "; ".join(diffs[:3]), "opno": -1})
        return out


def _engine() -> C09Engine:
    base = make("C09")
    eng = C09Engine(base.pid, base.rule + " Every program in which something was rejected is run twice: as generated, and with each "
                    "request that must be rejected not made at all; accepted requests and all invocations must have the identical observable "
                    "history (group, ids, start order, outcome, cancellations, callback counts).",
                    base.profiles, base._nontrivial, base.n["quick"], base.n["thorough"], floors=dict(base._floors, **{"twin:compared": 0.3}),
                    sweep=base._sweep)
    return eng


ENGINE = _engine()
