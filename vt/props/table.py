"""C01-C15: one SimEngine per property."""
from __future__ import annotations

from typing import Any, Dict, List

from ..sim.gen import profile
from .simprop import (DRAIN, SimEngine, abandon_then_close_family, big_stop_family, blocked_spawners_family, cancel_then_close_family, close_overlap_family, double_cancel_family, failed_close_then_unlock_family, flush_raises_family, flush_vs_spawner_family, many_ended_family, name_reuse_family, rejected_then_cancel_family, sibling_maps_family, swallow_then_cancel_again_family, thousand_tasks_family, two_flushes_family, unlock_while_closing_family, overlap_family, sweep_space,
                      two_pools_family, worker_in_flush_family)

FIN = [1, 1, 2, 2, 3, 4, 0, None]


def has(case: dict, pred) -> bool:
    return any(pred(s) for s in case["steps"])


def n_spawns(case: dict) -> int:
    return sum(1 for s in case["steps"] if s["op"] == "spawn")


BURST = profile(classes=["TaskPool", "SimpleTaskPool"], kinds=["apply", "map"], sizes=[150, 200, 300, None], max_num=300, max_elems=300,
                min_steps=2, max_steps=8, p_cb=0.1, p_cb_wait=0.0, p_embedded=0.0, p_swallow=0.0, p_cleanup=0.0, burst=True,
                ops={"spawn": 3, "tick": 4, "cancel_group": 2, "cancel_all": 1, "flush": 1, "settle": 2, "cancel": 1})


def _ov(tails, thin):
    cases = overlap_family(tails, thin=thin)
    return cases, len(cases)


def _c01() -> SimEngine:
    prof = profile(sizes=FIN, p_cb_raise=0.12, p_worker_raise=0.1, p_callfault=0.1, p_bad_return=0.06,
                   new_sizes=[0, 1, 2, 3, 4, None],
                   ops={"set_size": 0.8, "cancel": 2, "cancel_group": 1.2, "flush": 1.5, "close": 0.3, "spawn": 9, "abandon": 0.6})
    emb = profile(sizes=FIN, p_embedded=0.4, p_cb_raise=0.1, ops={"spawn": 9, "cancel": 2})
    def sw(tier: str):
        perts = [{"op": "flush", "pool": 0}, {"op": "flush", "pool": 0, "re": True}]
        cases: List[dict] = []
        for second in ({"op": "cancel", "pool": 0, "refs": [["run", 0]], "place": "inline"}, {"op": "cancel_group", "pool": 0, "ref": ["live", 0], "place": "inline"}):
            for tail in ([{"op": "tick", "k": 1}, {"op": "abandon", "k": 0, "place": "inline"}, {"op": "settle"}],
                         [{"op": "tick", "k": 2}, {"op": "abandon", "k": 0, "place": "inline"}, {"op": "tick", "k": 1}, {"op": "gate_all", "place": "inline"}, {"op": "settle"}]):
                c, _ = sweep_space(perts, max_tick=5, places=("inline", "task"), sizes=(1, 2), second=second, tail=tail)
                cases += c
        if tier == "quick":
            cases = cases[::6]
        more = {"op": "spawn", "pool": 0, "kind": "apply", "num": 2, "worker": {"script": [["wait"]], "fname": "x"}, "place": "inline"}
        cases = cases + overlap_family([DRAIN, [more, {"op": "settle"}] + DRAIN], thin=4 if tier == "quick" else 1)
        return ("base scenario x (cancel / cancel_group) x flush at every tick 0..5 x the flush caller abandoned 1-2 ticks later; plus the "
                "overlap family (cancel, flush, cancel, callbacks let go in every order, optionally a further request)", cases, len(cases))

    return SimEngine(
        "C01",
        "programs: 1 pool of size in {0,1,2,3,4,inf} fixed while tasks are in flight (assignments of pool_size are made only while the pool is "
        "unoccupied, others are skipped and counted), <=30(quick)/60 steps over spawn/cancel/cancel_group/cancel_all/stop/flush/"
        "close/lock/gate/tick in placements inline/task/call_soon and embedded in workers, callbacks, iterators. Non-trivial: at some "
        "observation point live workers == pool size (finite) while a spawner still had work to do (someone waits for room). "
        "Distinct = canonical JSON hash of the program.",
        [("default", prof, 0.58), ("embedded-heavy", emb, 0.25), ("two-pools", dict(prof, max_pools=2, ops=dict(prof["ops"], new_pool=0.8)), 0.15), ("burst", BURST, 0.02)],
        lambda case, l: "pool-full-with-spawner-waiting" in l,
        n_quick=4000, n_thorough=200000, sweep=sw, guards=("D4",),
        floors={"pool-full-with-spawner-waiting": 0.3, "idle:pool-full": 0.3})


def _c02() -> SimEngine:
    prof = profile(sizes=FIN, p_cb=0.7, p_cb_wait=0.5, p_worker_raise=0.15, p_cb_raise=0.05, p_bad_return=0.06,
                   ops={"cancel": 5, "cancel_group": 2, "cancel_all": 0.6, "stop": 2, "flush": 2.5, "tick": 8, "spawn": 8, "close": 0.5, "abandon": 0.6},
                   cancel_refs=["run", "run", "run", "run", "live", "any"])

    def sw(tier: str):
        perts = [{"op": "cancel", "pool": 0, "refs": [["run", 0]]}, {"op": "cancel", "pool": 0, "refs": [["run", 1]]},
                 {"op": "cancel_group", "pool": 0, "ref": ["live", 0]}, {"op": "cancel_all", "pool": 0},
                 {"op": "flush", "pool": 0}]
        cases, n = sweep_space(perts, tail=[{"op": "tick", "k": 1}, {"op": "flush", "pool": 0, "re": True}], max_tick=6,
                               thin=6 if tier == "quick" else 1)
        cases = cases + overlap_family([DRAIN + [{"op": "flush", "pool": 0, "re": True}]], thin=2 if tier == "quick" else 1)
        return ("base scenario (size x request kind x callbacks x worker script) x perturbation x every tick 0..6 x placement; "
                "plus the overlap family (cancel, flush, cancel, callbacks let go in every order)", cases, len(cases))

    return SimEngine(
        "C02",
        "programs weighted towards cancellations close to task creation, exceptions, slow async callbacks and overlapping flush(); plus the "
        "enumerated placement sweep. Non-trivial: a cancellation reached a task before its first step, or a flush overlapped a callback / "
        "saw a state change while suspended, and the end-of-run capacity probe ran. Distinct = program hash.",
        [("default", prof, 0.83), ("two-pools", dict(prof, max_pools=2), 0.15), ("burst", BURST, 0.02)],
        lambda case, l: "probe:done" in l and bool(l & {"cancel:before-first-step", "group-cancel:task-before-first-step",
                                                       "flush:overlaps-callback", "flush:state-changed-meanwhile"}),
        n_quick=4000, n_thorough=200000, sweep=sw,
        floors={"cancel:before-first-step": 0.02, "flush:overlaps-callback": 0.05})


def _c03() -> SimEngine:
    prof = profile(p_cb=0.85, p_cb_async=0.6, p_cb_wait=0.4, p_swallow=0.15, p_cleanup=0.15, p_worker_raise=0.1,
                   ops={"cancel": 4, "cancel_group": 1.5, "cancel_all": 0.5, "stop": 1.5, "flush": 1.5, "spawn": 8})
    return SimEngine(
        "C03",
        "programs with end/cancel callbacks on most requests (sync, async, gated), workers that return, raise, propagate, swallow or clean "
        "up on cancellation, cancelled singly, repeatedly, by group, globally, by stop. Non-trivial: the run contains a cancel callback and "
        "an end callback, at least one of them async. Distinct = program hash.",
        [("default", prof, 0.85), ("two-pools", dict(prof, max_pools=2), 0.15)],
        lambda case, l: bool(l & {"cb:c:async", "cb:c:sync"}) and bool(l & {"cb:e:async", "cb:e:sync"}) and bool(l & {"cb:c:async", "cb:e:async"}),
        n_quick=4000, n_thorough=200000, floors={"cb:c:async": 0.1, "cb:e:async": 0.2},
        sweep=lambda tier: ("overlap family: two tasks cancelled one after the other (slow cancel callbacks), a flush in between, callbacks let go "
                            "in every order, then everything drained", *_ov([DRAIN], 2 if tier == "quick" else 1)))


def _c04() -> SimEngine:
    prof = profile(kinds=["apply"], sizes=[1, 1, 2, 2, 3, None], p_callfault=0.2, p_bad_return=0.1, p_cb_raise=0.12, p_worker_raise=0.1, p_gname=0.3,
                   ops={"lock": 1.2, "unlock": 0.8, "close": 0.8, "cancel": 1, "cancel_group": 0.5, "flush": 0.5, "spawn": 8, "gate": 8},
                   end_with_close=0.3)
    simple = profile(classes=["SimpleTaskPool"], sizes=[1, 2, 2, 3, None], p_callfault=0.2, p_bad_return=0.1, p_cb_raise=0.12, p_worker_raise=0.1,
                     ops={"lock": 1.2, "unlock": 0.8, "close": 0.8, "cancel": 1, "stop": 0.6, "spawn": 8, "gate": 8}, end_with_close=0.3)
    return SimEngine(
        "C04",
        "apply() on TaskPool and start() on SimpleTaskPool with num in 0..5(8), args/kwargs shapes (none, positional, keyword, kwargs=None; "
        "identity-checked sentinels), call-time faults, pool sizes forcing waits, competing requests, lock()/gather_and_close() after "
        "acceptance. Non-trivial: some request had num >= 2, its spawner had to wait for room and a lock/close/competing request arrived "
        "while it still had invocations left. Distinct = program hash.",
        [("apply", prof, 0.52), ("start", simple, 0.36), ("two-pools", dict(prof, max_pools=2, classes=["TaskPool", "SimpleTaskPool"]), 0.12)],
        lambda case, l: "pool-full-with-spawner-waiting" in l and "lock-or-close-while-spawner-active" in l
        and has(case, lambda s: s["op"] == "spawn" and s.get("num", 1) >= 2),
        n_quick=4000, n_thorough=200000, floors={"lock-or-close-while-spawner-active": 0.15})


def _c05() -> SimEngine:
    prof = profile(kinds=["map", "starmap", "doublestarmap"], classes=["TaskPool"], sizes=[1, 2, 3, 4, None, None], p_callfault=0.25,
                   p_cb_raise=0.12, p_worker_raise=0.1, p_iter_raise=0.08,
                   ops={"cancel": 2, "cancel_group": 0.4, "flush": 0.5, "gate": 10, "spawn": 7, "close": 0.2, "stop": 0},
                   cancel_refs=["run", "live", "live"])
    return SimEngine(
        "C05",
        "map/starmap/doublestarmap over counting generators of length 0..6(10), num_concurrent 1..4, raising elements, pool sizes below "
        "and above num_concurrent, gates opened in generated order, single cancellations, competing requests. Non-trivial: a call reached "
        "num_concurrent live tasks at an idle point and either tasks of a call finished out of start order or an element's call raised. "
        "Distinct = program hash.",
        [("default", prof, 0.9), ("two-pools", dict(prof, max_pools=2), 0.1)],
        lambda case, l: "map:at-num_concurrent" in l and ("map:finished-out-of-start-order" in l or has(case, lambda s: s["op"] == "spawn" and s.get("worker", {}).get("callfault"))),
        n_quick=4000, n_thorough=200000, floors={"map:at-num_concurrent": 0.3, "map:finished-out-of-start-order": 0.05},
        sweep=lambda tier: ("overlap family: two members of a map cancelled one after the other (slow cancel callbacks), a flush in between, callbacks "
                            "let go in every order, then everything drained", *_ov([DRAIN], 2 if tier == "quick" else 1)))


def _c06() -> SimEngine:
    prof = profile(p_cb=0.6, p_cb_wait=0.5, p_swallow=0.2, p_cleanup=0.15, p_worker_raise=0.15, p_cb_raise=0.05, p_embedded=0.3,
                   embedded_ops=["cancel", "cancel", "cancel", "cancel_group", "spawn", "flush", "gate"],
                   ops={"cancel": 9, "flush": 2.5, "cancel_group": 0.5, "spawn": 7, "tick": 7, "gate": 5, "stop": 0.5, "close": 0.3},
                   cancel_refs=["run", "run", "run", "live", "stale", "never", "neg", "incb", "incb", "any", "self", "self", "frac"])

    def sw(tier: str):
        perts = []
        for refs in ([["run", 0]], [["run", 1], ["run", 0]], [["run", 0], ["run", 0]], [["run", 0], ["stale", 0]], [["stale", 0], ["run", 0]],
                     [["run", 0], ["never", 0]], [["incb", 0], ["run", 0]], [["run", 0], ["neg", 0]], [["any", 0], ["any", 1], ["any", 2]],
                     [["frac", 0]], [["run", 0], ["frac", 1]]):
            perts.append({"op": "cancel", "pool": 0, "refs": refs})
        cases, n = sweep_space(perts, max_tick=7, second={"op": "cancel", "pool": 0, "refs": [["run", 1]], "place": "inline"},
                               thin=10 if tier == "quick" else 1)
        tails = [[{"op": "cancel", "pool": 0, "refs": r, "place": "inline"}] + DRAIN for r in ([["incb", 0]], [["any", 0], ["any", 1]], [["any", 1], ["run", 0]])]
        cases = cases + overlap_family(tails, thin=6 if tier == "quick" else 1)
        return ("base scenario x (optional earlier cancel) x id tuples over every task state x every tick 0..7 x placement; plus the "
                "overlap family (cancel, flush, cancel, callbacks let go in every order) x cancel of in-callback / any ids", cases, len(cases))

    return SimEngine(
        "C06",
        "cancel(*ids) at arbitrary points with id tuples mixing running (incl. created-not-started, already cancel-requested), duplicate, "
        "in-callback, ended, flushed, never issued and negative ids; plus the enumerated sweep. Non-trivial: a call mixing running and "
        "non-running ids, or cancelling >= 2 distinct ids. Distinct = program hash.",
        [("default", prof, 0.85), ("two-pools", dict(prof, max_pools=2), 0.15)],
        lambda case, l: bool(l & {"cancel:mixed-ids", "cancel:multi"}),
        n_quick=4000, n_thorough=200000, sweep=sw, floors={"cancel:mixed-ids": 0.1, "cancel:ok": 0.3})


def _c07() -> SimEngine:
    prof = profile(sizes=[1, 1, 2, 2, 3, None], p_embedded=0.3, p_gname=0.3, p_aflush=0.12, p_cb=0.6, p_cb_wait=0.5,
                   embedded_ops=["cancel_group", "cancel_group", "cancel_all", "spawn", "gate"],
                   ops={"cancel_group": 5, "cancel_all": 1.2, "spawn": 9, "cancel": 0.6, "flush": 0.6, "tick": 7})

    def sw(tier: str):
        perts = [{"op": "cancel_group", "pool": 0, "ref": ["live", 0]}, {"op": "cancel_group", "pool": 0, "ref": ["live", 1]},
                 {"op": "cancel_all", "pool": 0}, {"op": "cancel_group", "pool": 0, "ref": ["unknown", 0]}]
        sib = {"op": "spawn", "pool": 0, "kind": "map", "n": 3, "nc": 1, "worker": {"script": [["yield", 1]], "fname": "x"}, "place": "inline"}
        cases, n = sweep_space(perts, max_tick=7, second=sib, tail=[{"op": "settle"}, {"op": "gate_all"}], thin=8 if tier == "quick" else 1)
        return ("base scenario + sibling map request x group/global cancel x every tick 0..7 x placement", cases, n)

    return SimEngine(
        "C07",
        "1..n sibling groups of all request kinds; cancel_group / cancel_all / unknown names at arbitrary ticks, issued by the driver, "
        "actors, workers and callbacks of the same or another group; plus the enumerated sweep. Non-trivial: the cancelled group's "
        "spawner still had work left and a sibling had work pending. Distinct = program hash.",
        [("default", prof, 0.85), ("two-pools", dict(prof, max_pools=2), 0.15)],
        lambda case, l: "group-cancel:spawner-had-work-left" in l and "group-cancel:sibling-had-work-pending" in l,
        n_quick=4000, n_thorough=200000, sweep=sw,
        floors={"group-cancel:spawner-had-work-left": 0.3, "group-cancel:before-spawner-ran": 0.05})


def _c08() -> SimEngine:
    prof = profile(sizes=[1, 2, 2, 3, None], end_with_close=0.9, p_cb=0.6, p_cb_wait=0.5, p_callfault=0.15,
                   ops={"close": 1.5, "until_closed": 1.2, "cancel_group": 1.5, "cancel": 1, "spawn": 9, "gate": 8, "lock": 0.3, "flush": 1.2, "abandon": 0.8, "abandon_uc": 0.8})

    def sw(tier: str):
        perts = [{"op": "close", "pool": 0}, {"op": "close", "pool": 0, "re": True}]
        pre = {"op": "cancel_group", "pool": 0, "ref": ["live", 0], "place": "inline"}
        sib = {"op": "spawn", "pool": 0, "kind": "map", "n": 3, "nc": 1, "worker": {"script": [["yield", 1]], "fname": "x"}, "place": "inline"}
        cases: List[dict] = []
        for second in (None, sib):
            c, _ = sweep_space(perts, max_tick=6, places=("inline", "task"), second=second, tail=[{"op": "until_closed", "pool": 0}, {"op": "tick", "k": 2}])
            cases += c
            respawn = {"op": "spawn", "pool": 0, "kind": "apply", "num": 2, "worker": {"script": [["yield", 1]], "fname": "w"}, "place": "inline"}
            for case in c:
                # the same with a group cancelled in the very tick of the call
                cc = {"pools": case["pools"], "steps": case["steps"][:-3] + [pre] + case["steps"][-3:]}
                cases.append(cc)
                # ... and with a new request (possibly taking the freed name) between the cancellation and the call
                cases.append({"pools": case["pools"], "steps": case["steps"][:-3] + [pre, respawn] + case["steps"][-3:]})
                cases.append({"pools": case["pools"], "steps": case["steps"][:-3] + [pre, respawn, {"op": "tick", "k": 1}] + case["steps"][-3:]})
        if tier == "quick":
            cases = cases[::8]
        cases = cases + close_overlap_family(thin=6 if tier == "quick" else 1, ops=("close",))
        return ("base scenario (+sibling map) x [cancel_group in the same tick] x gather_and_close at every tick 0..6; plus the close-overlap "
                "family (the call blocked on a slow callback while other workers fail / return in every order)", cases, len(cases))

    return SimEngine(
        "C08",
        "histories ending in gather_and_close() (as an actor) with pending/blocked spawners, groups cancelled in the same tick, tasks "
        "mid-callback, until_closed() waiters; gates opened in generated order while it waits; plus the enumerated sweep. Non-trivial: at "
        "call time a spawner had work left and a task was running, and the call returned. Distinct = program hash.",
        [("default", prof, 0.9), ("two-pools", dict(prof, max_pools=2), 0.1)],
        lambda case, l: "close:spawner-work-left-and-task-running" in l and "close:returned" in l,
        n_quick=4000, n_thorough=200000, sweep=sw, floors={"close:spawner-had-work-left": 0.2, "close:returned": 0.5})


def _c09() -> SimEngine:
    prof = profile(p_gname=0.5, ops={"bad_spawn": 4, "bad_pool": 0.5, "lock": 2.5, "unlock": 2, "close": 0.6, "spawn": 8, "cancel_group": 0.8,
                                     "set_size": 0.5, "gate": 5}, new_sizes=[-1, -2, -3, -0.5, -0.001, "-inf"])
    return SimEngine(
        "C09",
        "every spawning method with rejection causes and their combinations (locked, closed, non-coroutine function: plain def / lambda / "
        "partial / builtin, num_concurrent <= 0, duplicate explicit group name, negative pool size by constructor and assignment) at "
        "arbitrary points; lock()/unlock() repeated. Non-trivial: a request carrying work was rejected while groups were live. "
        "Distinct = program hash.",
        [("default", prof, 0.9), ("two-pools", dict(prof, max_pools=2), 0.1)],
        lambda case, l: "rejected:with-live-groups" in l,
        n_quick=4000, n_thorough=200000, floors={"rejected:with-live-groups": 0.3, "rejected:multi-cause": 0.1})


def _c10() -> SimEngine:
    # function names: a function's __name__ is any string ('<lambda>', names set by decorators, ...)
    prof = profile(p_gname=0.6, gname_range=(3, 1), fnames=["w", "w", "x", "w", "x", "<lambda>", "job{7}", "a-group-1", "w%s", "{}", "x y", "a{{b}}"], sizes=[1, 2, 3, None, None], min_steps=8,
                   ops={"spawn": 10, "cancel_group": 3, "cancel_all": 0.5, "gate": 6, "cancel": 0.5, "flush": 0.3})
    return SimEngine(
        "C10",
        "named and unnamed requests of all kinds with few function names and explicit names imitating the generated pattern, group "
        "cancellations followed by name re-use, interleaved spawners; a share of programs with a dozen and more live groups of one method "
        "and function. Non-trivial: >= 3 requests, a group cancellation and a later request "
        "that got a name used before. Distinct = program hash.",
        [("default", prof, 0.75), ("two-pools", dict(prof, max_pools=2), 0.1),
         # a dozen and more live groups of one method and function: generated indices with two digits, gaps from cancelled groups
         ("many-groups", profile(classes=["TaskPool", "SimpleTaskPool"], kinds=["apply", "apply", "apply", "map"], fnames=["w"], p_gname=0.08, gname_range=(1, 14),
                                 sizes=[None, None, 4], min_steps=22, max_steps=40, max_num=2, max_elems=2, p_cb=0.1, p_embedded=0.0,
                                 ops={"spawn": 18, "cancel_group": 1.4, "gate": 1.5, "tick": 1, "settle": 0.3, "cancel": 0.2, "flush": 0.2, "stop": 0.2}), 0.15)],
        lambda case, l: n_spawns(case) >= 3 and bool(l & {"cancel_group:ok", "cancel_all:ok"}) and "group:name-reused" in l,
        n_quick=4000, n_thorough=200000, floors={"group:name-reused": 0.1})


def _c11() -> SimEngine:
    prof = profile(max_pools=3, sizes=[1, 2, 3, None, None], p_bad_return=0.1, p_callfault=0.1, ops={"spawn": 10, "flush": 2, "cancel": 1.5, "cancel_group": 1, "gate": 7, "stop": 0.5,
                                                                  "new_pool": 1.2, "close": 1.0})
    return SimEngine(
        "C11",
        "1..3 pools of either class (named and unnamed) in one loop, interleaved spawners, endings, flushes, cancellations. Non-trivial: "
        ">= 2 pools created tasks and a flush returned. Distinct = program hash.",
        [("default", prof, 0.8), ("many-tasks", dict(prof, max_num=14, max_elems=14, max_steps=40, sizes=[3, None, None], p_cb=0.2), 0.2)],
        lambda case, l: "ids:pool-with-tasks-0" in l and "ids:pool-with-tasks-1" in l and "flush:returned" in l,
        n_quick=4000, n_thorough=200000, floors={"ids:pool-with-tasks-1": 0.3, "new-pool-after-a-close": 0.05})


def _c13() -> SimEngine:
    prof = profile(p_cb=0.85, p_cb_async=0.8, p_cb_wait=0.8, sizes=[1, 2, 3, None], p_worker_raise=0.25, p_iter_raise=0.15, p_cb_raise=0.08, min_steps=8,
                   ops={"flush": 6, "cancel": 4, "cancel_group": 1, "spawn": 8, "gate": 7, "tick": 7, "stop": 1, "abandon": 0.8})

    def sw(tier: str):
        perts = [{"op": "flush", "pool": 0}, {"op": "flush", "pool": 0, "re": True}]
        second = {"op": "flush", "pool": 0}
        cases: List[dict] = []
        for sec in (None, second, {"op": "cancel", "pool": 0, "refs": [["run", 1]], "place": "inline"}, {"op": "cancel", "pool": 0, "refs": [["run", 0]], "place": "inline"}):
            for tail in ([{"op": "tick", "k": 1}, {"op": "cancel", "pool": 0, "refs": [["run", 0]], "place": "inline"}, {"op": "tick", "k": 2}, {"op": "gate", "k": 0, "place": "inline"}],
                         [{"op": "gate", "k": 0, "place": "inline"}, {"op": "tick", "k": 1}, {"op": "cancel", "pool": 0, "refs": [["run", 0]], "place": "inline"}]):
                c, _ = sweep_space(perts, max_tick=6, places=("inline", "task"), second=sec, tail=tail)
                cases += c
        if tier == "quick":
            cases = cases[::8]
        cases = cases + overlap_family([DRAIN, [{"op": "flush", "pool": 0, "place": "eager"}] + DRAIN], thin=4 if tier == "quick" else 1)
        return ("base scenario x [earlier flush] x flush at every tick 0..6 x (cancel / finish) afterwards; plus the overlap family "
                "(cancel, flush, cancel, callbacks let go in every order)", cases, len(cases))

    return SimEngine(
        "C13",
        "flush() calls (several, overlapping, both return_exceptions values) at arbitrary ticks relative to tasks ending, being cancelled "
        "and sitting in slow callbacks; plus the enumerated sweep. Non-trivial: a flush was suspended and another task changed state "
        "meanwhile. Distinct = program hash.",
        [("default", prof, 0.88), ("two-pools", dict(prof, max_pools=2), 0.12)],
        lambda case, l: "flush:was-suspended" in l and "flush:state-changed-meanwhile" in l,
        n_quick=4000, n_thorough=200000, sweep=sw, floors={"flush:was-suspended": 0.2, "flush:state-changed-meanwhile": 0.05})


def _c14() -> SimEngine:
    prof = profile(classes=["SimpleTaskPool"], sizes=[2, 3, 4, None, None, None], max_num=6, p_worker_raise=0.15, p_cb_raise=0.05, min_script=1,
                   stop_rel_share=7, stop_rel=[-3, -2, -2, -1, -1, -1, 0, 1, 2], min_steps=8, p_embedded=0.3,
                   embedded_ops=["stop", "stop", "stop", "cancel", "gate", "cancel_group"],
                   ops={"spawn": 7, "stop": 8, "cancel": 3, "gate": 8, "tick": 6, "flush": 0.8, "cancel_group": 1.0, "close": 0.9, "unlock": 0.4},
                   cancel_refs=["run", "live", "live", "stale"])
    return SimEngine(
        "C14",
        "SimpleTaskPool histories of start/stop/stop_all/cancel/finish that leave gaps among the running ids; n in -3..R+3. Non-trivial: "
        "stop(n) with 0 < n < R, R >= 3 running and a gap in their ids. Distinct = program hash.",
        [("default", prof, 0.8), ("many-tasks", dict(prof, max_num=14, max_steps=40, sizes=[None, None, 12]), 0.2)],
        lambda case, l: "stop:lifo-with-gaps" in l,
        n_quick=4000, n_thorough=200000, floors={"stop:lifo-with-gaps": 0.05, "stop:nonpositive": 0.05})


def _c15() -> SimEngine:
    prof = profile(sizes=[0, 1, 2, 3, 4, None], ops={"set_size": 6, "spawn": 8, "gate": 7, "cancel": 0.5, "tick": 6, "settle": 3})
    return SimEngine(
        "C15",
        "pool_size reads at every observation point and assignments (old/new pairs incl. equal, 0, inf, negative) with k running and w "
        "waiting tasks, on one or two pools of a process (further pools created mid-run). Non-trivial: an accepted assignment followed by further spawning, or an assignment/read on an occupied pool. "
        "Distinct = program hash.",
        [("default", prof, 0.82), ("burst", dict(BURST, ops=dict(BURST["ops"], set_size=0.5)), 0.03),
         # several pools in one process (also created mid-run): a limit belongs to one pool
         ("two-pools", dict(prof, max_pools=2, ops=dict(prof["ops"], new_pool=1.0)), 0.15)],
        lambda case, l: bool(l & {"set_size:ok"}),
        n_quick=4000, n_thorough=200000, floors={"set_size:unoccupied": 0.2, "set_size:occupied": 0.2, "set_size:negative-rejected": 0.1})


MAKERS = {"C01": _c01, "C02": _c02, "C03": _c03, "C04": _c04, "C05": _c05, "C06": _c06, "C07": _c07, "C08": _c08, "C09": _c09,
          "C10": _c10, "C11": _c11, "C13": _c13, "C14": _c14, "C15": _c15}


def _thin(tier: str, q: int) -> int:
    return q if tier == "quick" else 1


_CANCEL_TAIL = [{"op": "cancel", "pool": 0, "refs": [["any", 0], ["any", 1], ["any", 2]], "place": "inline"}]
_NR = ("name-reuse family (a group cancelled while its spawner has work left, its name taken again within 0..1 ticks)", lambda t: name_reuse_family(_thin(t, 3)))
_BS = ("blocked-spawners family (two requests waiting for room, one cancelled, room made, one more request)", lambda t: blocked_spawners_family(_thin(t, 2)))
_WF = ("worker-in-flush family (a pool task suspended in flush() is cancelled by id / group / globally)", lambda t: worker_in_flush_family(_thin(t, 2)))
_TP = ("two-pools family (a cancelled task in a slow callback in one pool, the same ids probed in the other)", lambda t: two_pools_family(_thin(t, 2)))
_FR = ("close-overlap family restricted to flush(), followed by cancel() of every id", lambda t: close_overlap_family(_thin(t, 8), ops=("flush",), tail=_CANCEL_TAIL))
# enumerated families that run at every seed, per property (DESIGN 10.5, round 9)
_BSS = ("blocked-spawners family on SimpleTaskPool followed by stop(1), stop(2)",
        lambda t: blocked_spawners_family(1, tail=[{"op": "stop", "pool": 0, "n": 1, "place": "inline"}, {"op": "tick", "k": 1}, {"op": "stop", "pool": 0, "n": 2, "place": "inline"},
                                                   {"op": "settle"}], classes=("SimpleTaskPool",)))
_FX = ("flush-raises family (flush() raising over a failed task while a cancelled one sits in its callback, ids probed afterwards)", lambda t: flush_raises_family(_thin(t, 3)))
_RC = ("rejected-then-cancel family (a request rejected for each cause while a spawner waits, then the group cancelled or not)", lambda t: rejected_then_cancel_family(_thin(t, 2)))
_FS = ("flush-vs-spawner family (flush/close waiting on a slow end callback while a waiting spawner is handed the freed room and is cancelled)", lambda t: flush_vs_spawner_family(_thin(t, 2)))
_DC = ("double-cancel family (a task in its slow cancel callback is hit by a group / global / repeated cancellation, then flush or close)", lambda t: double_cancel_family(_thin(t, 2)))
_TF = ("two-flushes family (overlapping flush() calls, tasks entering their end callbacks in between, ids probed afterwards)", lambda t: two_flushes_family(_thin(t, 4)))
_SM = ("sibling-maps family (2-3 groups of the map family and apply side by side, one cancelled, the others run to the end)", lambda t: sibling_maps_family(_thin(t, 3)))
_FC = ("failed-close-then-unlock family (gather_and_close raises a task's exception: pool locked, not closed; unlock reopens; a later close closes for good)", lambda t: failed_close_then_unlock_family())
_SW = ("swallow-then-cancel-again family (a worker that shrugged off one cancellation is cancelled again by id / group / globally / stop)", lambda t: swallow_then_cancel_again_family())
_UC = ("unlock-while-closing family (unlock() during a pending gather_and_close(), no request in that window: the pool still ends closed for good)", lambda t: unlock_while_closing_family())
FAMILIES = {"C09": [_RC, _FC, _UC], "C05": [_SM], "C01": [_FS], "C08": [("overlap family (cancel, flush, cancel, callbacks let go in every order) followed by gather_and_close while a callback still runs",
                    lambda t: overlap_family([[{"op": "close", "pool": 0, "place": "eager", "re": True}] + DRAIN, [{"op": "close", "pool": 0, "place": "task"}, {"op": "until_closed", "pool": 0, "place": "task"}] + DRAIN], thin=_thin(t, 4))),
                   _UC, _FC, _FS, _DC, ("abandon-then-close family (a task left in asyncio's cancelled state by the user's own cancellation of a flush() caller, healthy tasks still running at gather_and_close)", lambda t: abandon_then_close_family(_thin(t, 2)))], "C02": [_BS, _FS, _DC], "C03": [_TP, _FX, _DC, _TF, ("many-ended family (600 / 1100 ended, unflushed tasks still counted)", lambda t: many_ended_family())], "C04": [_NR, _BS], "C06": [_WF, _TP, _FR, _FX, _TF, _SW, ("many-ended family (600 / 1100 ended, unflushed tasks: their ids still answer AlreadyEnded)", lambda t: many_ended_family())], "C13": [_FX, _TF], "C07": [_NR, _WF, _FS, _DC, _SM, _SW, ("cancel-then-close family (a group cancelled before its spawner ran, a sibling still feeding, gather_and_close in that state)", lambda t: cancel_then_close_family())], "C10": [_NR], "C11": [_BS, _TP, ("thousand-tasks family (ids with four digits in task names, groups, callbacks)", lambda t: thousand_tasks_family())], "C14": [_BSS, _SW, ("big-stop family (stop(n) for n = 255..290 among 300 running tasks)", lambda t: big_stop_family())]}


def make(pid: str) -> SimEngine:
    eng = MAKERS[pid]()
    fams = FAMILIES.get(pid)
    if fams:
        base = eng._sweep

        def sw(tier: str):
            desc, cases, _ = base(tier) if base else ("", [], 0)
            cases = list(cases)
            descs = [desc] if desc else []
            for d, fn in fams:
                cases += fn(tier)
                descs.append(d)
            return ("; plus the ".join(descs), cases, len(cases))
        eng._sweep = sw
    return eng
