"""Property profiles for the sim engine (C01-C15): generator weights, non-trivial rules, floors, sweeps."""
from __future__ import annotations

import copy
import itertools
from typing import Any, Callable, Dict, Iterable, List, Optional, Tuple

from ..runner import Engine
from ..sim.gen import profile, programs

ASSUME = [
    "schedule semantics are those of CPython 3.12 asyncio as installed in /venv (FIFO ready queue, no timers in the pool code)",
    "private peeks used for observation only: loop._ready/_scheduled (idle detection), key sets of pool._tasks_running/_tasks_cancelled/_tasks_ended (per-id state), never in place of a public answer",
    "workers are callables marked as coroutine functions that record the call and return a scripted coroutine; a fraction of requests uses plain async def workers",
    "self-cancellation of a task with no later suspension point and re-entrant group cancellation from the group's own iterator/func call are excluded (DESIGN 2.2, 6)",
]

BOUNDS = {"quick": {"max_steps": 30, "max_num": 5, "max_elems": 6, "max_nc": 4},
          "thorough": {"max_steps": 60, "max_num": 8, "max_elems": 10, "max_nc": 4}}


def L(out: dict) -> set:
    return set(out.get("labels", ()))


class SimEngine(Engine):
    def __init__(self, pid: str, rule: str, profiles: List[Tuple[str, dict, float]], nontrivial: Callable[[dict, set], bool],
                 n_quick: int, n_thorough: int, floors: Optional[Dict[str, float]] = None,
                 sweep: Optional[Callable[[str], Tuple[str, Iterable[dict], int]]] = None, guards: Tuple[str, ...] = ()) -> None:
        self.pid = pid
        self.rule = rule
        self.profiles = profiles
        self._nontrivial = nontrivial
        self.n = {"quick": n_quick, "thorough": n_thorough}
        self._floors = floors or {}
        self._sweep = sweep
        self.guards = list(guards)
        self.assumptions = ASSUME
        self.bounds = BOUNDS

    def strategies(self, tier: str):
        out = []
        for name, prof, share in self.profiles:
            p = dict(prof)
            if tier == "thorough":
                p["max_steps"] = max(p["max_steps"], int(p["max_steps"] * 2))
                p["max_num"] = max(p["max_num"], 8)
                p["max_elems"] = max(p["max_elems"], 10)
            out.append((name, programs(p), max(1, int(self.n[tier] * share))))
        return out

    def run_case(self, case: dict) -> dict:
        from ..sim.interp import Run
        prog = case if not self.guards else dict(case, guards=self.guards)
        res = Run(prog).execute()
        viol = list(res.violations)
        if res.lib_error:
            viol.append({"props": [self.pid], "clause": "library/undocumented-exception-escaped", "detail": res.lib_error, "opno": -1})
        return {"violations": viol, "labels": res.labels, "stats": res.stats,
                "inconclusive": res.inconclusive, "error": res.error}

    def nontrivial(self, case: dict, out: dict) -> bool:
        if out.get("inconclusive") or out.get("error"):
            return False
        return self._nontrivial(case, L(out))

    def floors(self) -> Dict[str, float]:
        return self._floors

    def sweep(self, tier: str):
        return self._sweep(tier) if self._sweep else None

    def shrink_candidates(self, case: dict) -> List[dict]:
        out: List[dict] = []
        steps = case["steps"]
        n = len(steps)
        # chunks first, then single steps (from the end), then structural simplifications
        size = n // 2
        while size >= 2:
            for i in range(0, n, size):
                c = copy.deepcopy(case)
                del c["steps"][i:i + size]
                out.append(c)
            size //= 2
        for i in reversed(range(n)):
            c = copy.deepcopy(case)
            del c["steps"][i]
            out.append(c)
        for i, st in enumerate(steps):
            for key in ("ecb", "ccb", "pull_ops", "gname", "plain", "msg"):
                if key in st:
                    c = copy.deepcopy(case)
                    del c["steps"][i][key]
                    out.append(c)
            if "worker" in st:
                wk = st["worker"]
                for key in ("call_op", "callfault", "on_cancel", "ends", "scripts"):
                    if key in wk:
                        c = copy.deepcopy(case)
                        del c["steps"][i]["worker"][key]
                        out.append(c)
                if wk.get("script"):
                    c = copy.deepcopy(case)
                    c["steps"][i]["worker"]["script"] = wk["script"][:-1]
                    out.append(c)
            for key in ("num", "n"):
                if isinstance(st.get(key), int) and st[key] > 1:
                    c = copy.deepcopy(case)
                    c["steps"][i][key] = st[key] - 1
                    out.append(c)
            if st.get("place") in ("task", "soon"):
                c = copy.deepcopy(case)
                c["steps"][i]["place"] = "inline"
                out.append(c)
            if st.get("op") == "tick" and st.get("k", 1) > 1:
                c = copy.deepcopy(case)
                c["steps"][i]["k"] = st["k"] - 1
                out.append(c)
            if st.get("op") == "cancel" and len(st.get("refs", [])) > 1:
                for j in range(len(st["refs"])):
                    c = copy.deepcopy(case)
                    del c["steps"][i]["refs"][j]
                    out.append(c)
        if len(case["pools"]) > 1:
            c = copy.deepcopy(case)
            c["pools"] = c["pools"][:-1]
            out.append(c)
        for i, ps in enumerate(case["pools"]):
            for key in ("ecb", "ccb", "name"):
                if key in ps:
                    c = copy.deepcopy(case)
                    del c["pools"][i][key]
                    out.append(c)
        return out


# ---------------------------------------------------------------------------------------------------------------------
# base scenario pieces for the placement sweeps
def W(*script: Any, **kw: Any) -> dict:
    return dict({"script": [list(s) if isinstance(s, (list, tuple)) else [s] for s in script], "fname": "w"}, **kw)


def perturbed(base_steps: List[dict], perturb: List[dict], max_tick: int, places: Iterable[str], pools: List[dict],
              tail: Optional[List[dict]] = None) -> Iterable[dict]:
    """base ; tick*t ; perturbation (placed) ; [tail] -- for every t and placement."""
    for t in range(max_tick + 1):
        for pl in places:
            for pert in perturb:
                steps = list(copy.deepcopy(base_steps))
                if t:
                    steps.append({"op": "tick", "k": t})
                p = copy.deepcopy(pert)
                if p["op"] not in ("flush", "close", "until_closed"):
                    p["place"] = pl
                elif pl == "soon":
                    continue
                else:
                    p["place"] = "eager" if pl == "inline" else "task"
                steps.append(p)
                steps.extend(copy.deepcopy(tail or []))
                yield {"pools": copy.deepcopy(pools), "steps": steps}


CB_VARIANTS = [None, {"async": False}, {"async": True}, {"async": True, "wait": True}]


def base_scenarios(sizes=(1, 2, None), with_cb=True) -> Iterable[Tuple[List[dict], List[dict]]]:
    """(pools, steps) of small scenarios with tasks in every state a few ticks in."""
    for size in sizes:
        for kind, extra in (("apply", {"num": 3}), ("apply", {"num": 2}), ("map", {"n": 3, "nc": 1}), ("map", {"n": 3, "nc": 2}),
                            ("starmap", {"n": 2, "nc": 2})):
            for cb in (CB_VARIANTS if with_cb else [None]):
                for script in ([["wait"]], [["yield", 2]], [["wait"], ["yield", 1]]):
                    for ends in (None, [["raise"], ["ret"]]):
                        if ends is not None and script == [["wait"], ["yield", 1]]:
                            continue
                        wk = {"script": script, "fname": "w"}
                        if ends is not None:
                            wk["ends"] = ends       # the first invocation fails, the others return
                        sp = {"op": "spawn", "pool": 0, "kind": kind, "worker": wk, "place": "inline", **extra}
                        if cb is not None:
                            sp["ecb"] = cb
                            sp["ccb"] = cb
                        yield [{"cls": "TaskPool", "size": size}], [sp]


def sweep_space(perturbs: List[dict], tail: Optional[List[dict]] = None, max_tick: int = 6, places=("inline", "task", "soon"),
                sizes=(1, 2, None), second: Optional[dict] = None, thin: int = 1) -> Tuple[List[dict], int]:
    cases: List[dict] = []
    for pools, steps in base_scenarios(sizes):
        pre = list(steps)
        if second is not None:
            if second.get("op") in ("cancel", "cancel_group", "cancel_all", "stop"):
                pre.append({"op": "tick", "k": 2})      # let the tasks come into being before the earlier cancellation
            pre.append(copy.deepcopy(second))
        for c in perturbed(pre, perturbs, max_tick, places, pools, tail):
            cases.append(c)
    if thin > 1:
        cases = cases[::thin]
    return cases, len(cases)


def overlap_family(tails: List[List[dict]], thin: int = 1) -> List[dict]:
    """Two tasks cancelled one after the other, each with a slow (gated) cancel callback, and a flush() started in between that
    is still suspended when the second cancellation arrives and returns while the second task sits in its callback:

        spawn ; tick 3 ; cancel A ; tick a ; flush (actor) ; tick b ; cancel B ; tick c ; gate k ; settle ; <tail>

    for every a, b, c in 0..2, k in 0..3 (which waiter is let go first), both return_exceptions values, request kinds and sizes."""
    cases: List[dict] = []
    slow = {"async": True, "wait": True}
    for size in (2, 3, None):
        # (apply with num 2: after the two cancellations nothing else is running, so whoever waits waits for the callbacks alone)
        for kind, extra in (("map", {"n": 5, "nc": 2}), ("apply", {"num": 3}), ("starmap", {"n": 4, "nc": 3}), ("apply", {"num": 2})):
            for ecb in (None, slow):
                sp = {"op": "spawn", "pool": 0, "kind": kind, "worker": {"script": [["wait"]], "fname": "w"}, "place": "inline", "ccb": dict(slow), **extra}
                if ecb is not None:
                    sp["ecb"] = dict(ecb)
                for re_ in (False, True):
                    for a, b, c in itertools.product(range(3), range(3), range(3)):
                        for k in range(4):
                            for tail in tails:
                                steps = [copy.deepcopy(sp), {"op": "tick", "k": 3},
                                         {"op": "cancel", "pool": 0, "refs": [["live", 0]], "place": "inline"}]
                                if a:
                                    steps.append({"op": "tick", "k": a})
                                fl = {"op": "flush", "pool": 0, "place": "task" if a == 1 else "eager"}
                                if re_:
                                    fl["re"] = True
                                steps.append(fl)
                                if b:
                                    steps.append({"op": "tick", "k": b})
                                steps.append({"op": "cancel", "pool": 0, "refs": [["run", 1]], "place": "inline"})
                                if c:
                                    steps.append({"op": "tick", "k": c})
                                steps.append({"op": "gate", "k": k, "place": "inline"})
                                steps.append({"op": "settle"})
                                steps.extend(copy.deepcopy(tail))
                                cases.append({"pools": [{"cls": "TaskPool", "size": size}], "steps": steps})
    return cases[::thin] if thin > 1 else cases


DRAIN = [{"op": "gate_all", "place": "inline"}, {"op": "settle"}, {"op": "gate_all", "place": "inline"}, {"op": "settle"}]


def close_overlap_family(thin: int = 1, ops=("close", "flush"), tail: Optional[List[dict]] = None) -> List[dict]:
    """gather_and_close() / flush() blocked on a task that sits in a slow callback while another task fails, returns or is cancelled:

        spawn 3 gated workers (one of them raises) ; tick 3 ; first task ends or is cancelled -> slow callback ; tick a ;
        close/flush (actor) ; tick b ; gate k ; tick c ; gate k2 ; settle ; drain

    for a, b in 0..2, c in 0..1, k in 0..3, k2 in 0..2 (which of the remaining workers / the callback is let go, in which order), both
    return_exceptions values, eager and task placement."""
    cases: List[dict] = []
    slow = {"async": True, "wait": True}
    for size in (3, None):
        for first in ("gate", "cancel"):
            for ends in ([["ret"], ["raise"], ["ret"]], [["raise"], ["ret"]], [["ret"], ["ret"], ["raise"]]):
                sp = {"op": "spawn", "pool": 0, "kind": "apply", "num": 3, "place": "inline", "ecb": dict(slow), "ccb": dict(slow),
                      "worker": {"script": [["wait"]], "fname": "w", "ends": ends}}
                for op in ops:
                    for re_ in (False, True):
                        for place in ("eager", "task"):
                            for a, b, c in itertools.product(range(3), range(3), range(2)):
                                for k in range(4):
                                    for k2 in range(3):
                                        steps = [copy.deepcopy(sp), {"op": "tick", "k": 3}]
                                        steps.append({"op": "gate", "k": 0, "place": "inline"} if first == "gate" else
                                                     {"op": "cancel", "pool": 0, "refs": [["live", 0]], "place": "inline"})
                                        if a:
                                            steps.append({"op": "tick", "k": a})
                                        st_ = {"op": op, "pool": 0, "place": place}
                                        if re_:
                                            st_["re"] = True
                                        steps.append(st_)
                                        if b:
                                            steps.append({"op": "tick", "k": b})
                                        steps.append({"op": "gate", "k": k, "place": "inline"})
                                        if c:
                                            steps.append({"op": "tick", "k": c})
                                        steps.append({"op": "gate", "k": k2, "place": "inline"})
                                        steps.extend(copy.deepcopy(tail or []))
                                        steps.append({"op": "settle"})
                                        steps.extend(copy.deepcopy(DRAIN))
                                        cases.append({"pools": [{"cls": "TaskPool", "size": size}], "steps": steps})
    return cases[::thin] if thin > 1 else cases


def _ticks(steps: List[dict], k: int) -> None:
    if k:
        steps.append({"op": "tick", "k": k})


def name_reuse_family(thin: int = 1) -> List[dict]:
    """A group is cancelled while its spawner still has work (blocked on a full pool), and its name is taken again at once:

        spawn A (explicit or generated name) ; tick t1 ; cancel_group(A) / cancel_all ; tick t2 ; spawn B under the same name ; tick t3 ;
        gate k ; settle ; drain

    t1 in 0..3, t2 in 0..1, t3 in 0..1, k in 0..2, pool size 1..2, A and B apply or map, explicit name or the generated one."""
    cases: List[dict] = []
    for size in (1, 2):
        for ka, kb in (("apply", "apply"), ("map", "map"), ("apply", "map"), ("map", "apply")):
            for named in (True, False):
                if not named and ka != kb:
                    continue        # generated names only coincide for the same method and function
                for canc in ("group", "all"):
                    for t1, t2, t3 in itertools.product(range(4), range(2), range(2)):
                        for k in range(3):
                            def req(kind: str, fname_end: Any) -> dict:
                                sp: Dict[str, Any] = {"op": "spawn", "pool": 0, "kind": kind, "place": "inline",
                                                      "worker": {"script": [["wait"]], "fname": "w"}}
                                sp.update({"num": 3} if kind == "apply" else {"n": 3, "nc": 2})
                                if named:
                                    sp["gname"] = [0, 1]
                                return sp
                            steps = [req(ka, None)]
                            _ticks(steps, t1)
                            steps.append({"op": "cancel_group", "pool": 0, "ref": ["live", 0], "place": "inline"} if canc == "group" else
                                         {"op": "cancel_all", "pool": 0, "place": "inline"})
                            _ticks(steps, t2)
                            steps.append(req(kb, None))
                            _ticks(steps, t3)
                            steps.append({"op": "gate", "k": k, "place": "inline"})
                            steps.append({"op": "settle"})
                            steps.extend(copy.deepcopy(DRAIN))
                            cases.append({"pools": [{"cls": "TaskPool", "size": size}], "steps": steps})
    return cases[::thin] if thin > 1 else cases


def blocked_spawners_family(thin: int = 1, tail: Optional[List[dict]] = None, classes=("SimpleTaskPool", "TaskPool")) -> List[dict]:
    """A full pool with two requests waiting for room; the first (or second) waiting one is cancelled; room is made; one more request:

        spawn R0 (fills the pool) ; spawn R1 ; spawn R2 (both wait) ; tick t1 ; cancel_group(R1 or R2) ; tick t2 ; gate k (room) ;
        tick t3 ; spawn R3 ; settle ; drain

    for both pool classes, sizes 1..2, t1 in 0..2, t2, t3 in 0..1, k in 0..1."""
    cases: List[dict] = []
    for cls in classes:
        for size in (1, 2):
            for which in (1, 2):
                for t1, t2, t3 in itertools.product(range(3), range(2), range(2)):
                    for k in range(2):
                        for num in (1, 2):
                            def req(n: int) -> dict:
                                if cls == "SimpleTaskPool":
                                    return {"op": "spawn", "pool": 0, "kind": "start", "num": n, "place": "inline"}
                                return {"op": "spawn", "pool": 0, "kind": "apply", "num": n, "place": "inline", "worker": {"script": [["wait"]], "fname": "w"}}
                            steps = [req(size), req(num), req(num)]
                            _ticks(steps, t1)
                            steps.append({"op": "cancel_group", "pool": 0, "ref": ["live", which], "place": "inline"})
                            _ticks(steps, t2)
                            steps.append({"op": "gate", "k": k, "place": "inline"})
                            _ticks(steps, t3)
                            steps.append(req(1))
                            steps.append({"op": "settle"})
                            steps.extend(copy.deepcopy(tail or []))
                            steps.extend(copy.deepcopy(DRAIN))
                            pool: Dict[str, Any] = {"cls": cls, "size": size}
                            if cls == "SimpleTaskPool":
                                pool["worker"] = {"script": [["wait"]], "fname": "w"}
                            cases.append({"pools": [pool], "steps": steps})
    return cases[::thin] if thin > 1 else cases


def worker_in_flush_family(thin: int = 1) -> List[dict]:
    """A pool task is itself suspended in `await pool.flush()` (blocked on another task's slow cancel callback) when it is cancelled
    from outside by id, by group or globally:

        spawn X (slow cancel callback) ; spawn Y (script: wait, await flush(), wait) ; tick 3 ; cancel X ; tick t1 ; gate (Y goes on into
        flush) ; tick t2 ; cancel Y / cancel_group(Y) / cancel_all ; tick t3 ; gate k (the callback or a worker) ; settle ; drain"""
    cases: List[dict] = []
    slow = {"async": True, "wait": True}
    for size in (2, None):
        for how in ("id", "group", "all"):
            for ykind, yextra in (("apply", {"num": 2}), ("map", {"n": 3, "nc": 2})):
                for t1, t2, t3 in itertools.product(range(3), range(3), range(2)):
                    for k in range(3):
                        x = {"op": "spawn", "pool": 0, "kind": "apply", "num": 1, "place": "inline", "ccb": dict(slow), "worker": {"script": [["wait"]], "fname": "x"}}
                        y = {"op": "spawn", "pool": 0, "kind": ykind, "place": "inline", "ccb": {"async": False}, "ecb": {"async": False},
                             "worker": {"script": [["wait"], ["aflush"], ["wait"]], "fname": "w"}, **yextra}
                        steps = [x, y, {"op": "tick", "k": 3}, {"op": "cancel", "pool": 0, "refs": [["live", 0]], "place": "inline"}]
                        _ticks(steps, t1)
                        steps.append({"op": "gate", "k": 0, "place": "inline"})
                        _ticks(steps, t2)
                        steps.append({"op": "cancel", "pool": 0, "refs": [["live", 0]], "place": "inline"} if how == "id" else
                                     {"op": "cancel_group", "pool": 0, "ref": ["live", 1], "place": "inline"} if how == "group" else
                                     {"op": "cancel_all", "pool": 0, "place": "inline"})
                        _ticks(steps, t3)
                        steps.append({"op": "gate", "k": k, "place": "inline"})
                        steps.append({"op": "settle"})
                        steps.extend(copy.deepcopy(DRAIN))
                        cases.append({"pools": [{"cls": "TaskPool", "size": size}], "steps": steps})
    return cases[::thin] if thin > 1 else cases


def two_pools_family(thin: int = 1) -> List[dict]:
    """Two pools of one class in one loop, each with tasks; a task of the first is cancelled and sits in a slow callback while the
    other pool is asked about the same id (never issued there, running there, flushed there):

        spawn in pool 0 ; spawn in pool 1 ; tick 3 ; cancel pool 0 #a ; tick t ; <probe on pool 1> ; gate k ; settle ; drain"""
    cases: List[dict] = []
    slow = {"async": True, "wait": True}
    probes = [[["any", 0]], [["never", 0]], [["any", 0], ["any", 1]], [["stale", 0]], [["never", 2], ["any", 0]]]
    for cls in ("TaskPool", "SimpleTaskPool"):
        for names in ((None, None), ("", ""), ("a", None)):
            for n0, n1 in ((2, 1), (2, 3), (1, 0)):
                for t in range(3):
                    for pr in probes:
                        for k in range(2):
                            def req(p: int, n: int) -> dict:
                                return {"op": "spawn", "pool": p, "kind": "apply", "num": n, "place": "inline", "ccb": dict(slow),
                                        "worker": {"script": [["wait"]], "fname": "w"}}
                            steps = [req(0, n0)] + ([req(1, n1)] if n1 else []) + [{"op": "tick", "k": 3},
                                     {"op": "cancel", "pool": 0, "refs": [["live", 0]], "place": "inline"}]
                            _ticks(steps, t)
                            steps.append({"op": "cancel", "pool": 1, "refs": pr, "place": "inline"})
                            steps.append({"op": "flush", "pool": 1, "re": True, "place": "eager"})
                            steps.append({"op": "gate", "k": k, "place": "inline"})
                            steps.append({"op": "settle"})
                            steps.append({"op": "cancel", "pool": 1, "refs": pr, "place": "inline"})
                            steps.extend(copy.deepcopy(DRAIN))
                            pools = []
                            for nm in names:
                                ps: Dict[str, Any] = {"cls": cls, "size": None}
                                if nm is not None:
                                    ps["name"] = nm
                                if cls == "SimpleTaskPool":
                                    ps["worker"] = {"script": [["wait"]], "fname": "w"}
                                    ps["ccb"] = dict(slow)
                                pools.append(ps)
                            cases.append({"pools": pools, "steps": steps})
    return cases[::thin] if thin > 1 else cases


def flush_raises_family(thin: int = 1) -> List[dict]:
    """flush(return_exceptions=False) raises because a finished task had failed, while another task - cancelled - still sits in
    its slow cancel callback; then the ids are probed with cancel():

        spawn 3 (the first raises; slow cancel callback) ; tick 3 ; gate 0 (it fails) ; tick a ; cancel next ; tick b ; flush ;
        tick c ; cancel(ids) ; gate k ; settle ; cancel(ids) ; drain"""
    cases: List[dict] = []
    slow = {"async": True, "wait": True}
    probes = [[["any", 1]], [["any", 2], ["any", 1]], [["any", 0]], [["any", 1], ["any", 0]], [["incb", 0]]]
    for size in (3, None):
        for re_ in (False, True):
            for place in ("eager", "task"):
                for a, b, c in itertools.product(range(3), range(3), range(3)):
                    for pr in probes:
                        for k in range(2):
                            sp = {"op": "spawn", "pool": 0, "kind": "apply", "num": 3, "place": "inline", "ccb": dict(slow),
                                  "worker": {"script": [["wait"]], "fname": "w", "ends": [["raise"], ["ret"], ["ret"]]}}
                            steps = [sp, {"op": "tick", "k": 3}, {"op": "gate", "k": 0, "place": "inline"}]
                            _ticks(steps, a)
                            steps.append({"op": "cancel", "pool": 0, "refs": [["live", 0]], "place": "inline"})
                            _ticks(steps, b)
                            fl = {"op": "flush", "pool": 0, "place": place}
                            if re_:
                                fl["re"] = True
                            steps.append(fl)
                            _ticks(steps, c)
                            steps.append({"op": "cancel", "pool": 0, "refs": pr, "place": "inline"})
                            steps.append({"op": "gate", "k": k, "place": "inline"})
                            steps.append({"op": "settle"})
                            steps.append({"op": "cancel", "pool": 0, "refs": pr, "place": "inline"})
                            steps.extend(copy.deepcopy(DRAIN))
                            cases.append({"pools": [{"cls": "TaskPool", "size": size}], "steps": steps})
    return cases[::thin] if thin > 1 else cases


def rejected_then_cancel_family(thin: int = 1) -> List[dict]:
    """A request is rejected (duplicate name, non-coroutine function, num_concurrent < 1, locked pool) while the group whose name it
    used - or another one - still has a spawner waiting for room; then that group is cancelled or goes on:

        spawn A (named, blocked on a full pool) ; tick t1 ; <rejected request> ; tick t2 ; cancel_group(A) / cancel_all / nothing ;
        gate k ; settle ; drain"""
    cases: List[dict] = []
    w = {"script": [["wait"]], "fname": "w"}
    for size, gn in ((1, [0, 1]), (2, [0, 1]), (1, [6, 0])):       # [6, 0] is the empty string: a name like any other
        for ka in ("apply", "map"):
            a = {"op": "spawn", "pool": 0, "kind": ka, "place": "inline", "gname": list(gn), "worker": dict(w)}
            a.update({"num": 4} if ka == "apply" else {"n": 4, "nc": 2})
            rejected: List[List[dict]] = []
            for kb in ("apply", "map", "starmap", "doublestarmap"):
                b = {"op": "spawn", "pool": 0, "kind": kb, "place": "inline", "gname": list(gn), "worker": dict(w)}
                b.update({"num": 2} if kb == "apply" else {"n": 2, "nc": 1})
                rejected.append([b])                                                                        # duplicate name
                for fk in (0, 5):
                    rejected.append([dict(b, op="bad_spawn", bad=["func"], func_kind=fk)])                  # ... and not a coroutine function
                if kb != "apply":
                    rejected.append([dict(b, op="bad_spawn", bad=["nc"], nc_val=0, gname=[0, 2])])          # fresh name, num_concurrent 0
                rejected.append([{"op": "lock", "pool": 0, "place": "inline"}, dict(b, gname=[0, 2]), {"op": "unlock", "pool": 0, "place": "inline"}])
            for rej in rejected:
                for after in ("group", "all", None):
                    for t1, t2 in itertools.product(range(3), range(2)):
                        for k in range(2):
                            steps = [copy.deepcopy(a)]
                            _ticks(steps, t1)
                            steps.extend(copy.deepcopy(rej))
                            _ticks(steps, t2)
                            if after == "group":
                                steps.append({"op": "cancel_group", "pool": 0, "ref": ["live", 0], "place": "inline"})
                            elif after == "all":
                                steps.append({"op": "cancel_all", "pool": 0, "place": "inline"})
                            steps.append({"op": "gate", "k": k, "place": "inline"})
                            steps.append({"op": "settle"})
                            steps.extend(copy.deepcopy(DRAIN))
                            cases.append({"pools": [{"cls": "TaskPool", "size": size}], "steps": steps})
    return cases[::thin] if thin > 1 else cases


def thousand_tasks_family() -> List[dict]:
    """More than a thousand (quick) / ten thousand tasks in one pool: ids with four and five digits in names, groups and callbacks."""
    cases: List[dict] = []
    for cls in ("TaskPool", "SimpleTaskPool"):
        for size, big in ((None, 1100), (400, 1030)):
            for kind, extra in (("apply", {}), ("map", {"nc": 300})):
                if cls == "SimpleTaskPool" and kind == "map":
                    continue
                first = {"op": "spawn", "pool": 0, "kind": kind, "num": big, "n": big, "place": "inline", "worker": {"script": [], "fname": "w"},
                         "ecb": {"async": False}, **extra}
                second = {"op": "spawn", "pool": 0, "kind": "apply", "num": 3, "place": "inline", "worker": {"script": [["wait"]], "fname": "w"},
                          "ecb": {"async": False}, "ccb": {"async": False}}
                steps = [first, {"op": "settle"}, second, {"op": "tick", "k": 3}, {"op": "cancel", "pool": 0, "refs": [["live", 1]], "place": "inline"},
                         {"op": "settle"}] + copy.deepcopy(DRAIN)
                pool: Dict[str, Any] = {"cls": cls, "size": size}
                if cls == "SimpleTaskPool":
                    pool["worker"] = {"script": [], "fname": "w"}
                    pool["ecb"] = {"async": False}
                cases.append({"pools": [pool], "steps": steps})
    return cases


def flush_vs_spawner_family(thin: int = 1) -> List[dict]:
    """flush() / gather_and_close() waits for a task that sits in a slow end callback; its slot is free already, so a waiting spawner of
    another group is handed room meanwhile - and is cancelled (by group / globally) before or after it made use of it:

        spawn A (size-filling, slow end callback) ; spawn B (waits for room) ; tick 2 ; [flush] ; gate (A's workers return) ; tick a ;
        [flush] ; tick b ; cancel_group(B) / cancel_all ; tick c ; gate k ; settle ; drain (+ capacity probe at the end)"""
    cases: List[dict] = []
    slow = {"async": True, "wait": True}
    for size in (1, 2):
        for kb, extra in (("apply", {"num": 3}), ("map", {"n": 3, "nc": 2})):
            for op in ("flush", "close"):
                for early in (True, False):
                    for canc in ("group", "all"):
                        for a, b, c in itertools.product(range(3), range(3), range(2)):
                            for k in range(2):
                                A = {"op": "spawn", "pool": 0, "kind": "apply", "num": size, "place": "inline", "ecb": dict(slow),
                                     "worker": {"script": [["wait"]], "fname": "x"}}
                                B = {"op": "spawn", "pool": 0, "kind": kb, "place": "inline", "worker": {"script": [["wait"]], "fname": "w"}, **extra}
                                fl = {"op": op, "pool": 0, "place": "eager", "re": True}
                                steps = [A, B, {"op": "tick", "k": 2}]
                                if early:
                                    steps.append(dict(fl))
                                steps.append({"op": "gate", "k": 0, "place": "inline"})
                                if size == 2:
                                    steps.append({"op": "gate", "k": 0, "place": "inline"})
                                _ticks(steps, a)
                                if not early:
                                    steps.append(dict(fl))
                                _ticks(steps, b)
                                steps.append({"op": "cancel_group", "pool": 0, "ref": ["live", 1], "place": "inline"} if canc == "group" else
                                             {"op": "cancel_all", "pool": 0, "place": "inline"})
                                _ticks(steps, c)
                                steps.append({"op": "gate", "k": k, "place": "inline"})
                                steps.append({"op": "settle"})
                                steps.extend(copy.deepcopy(DRAIN))
                                cases.append({"pools": [{"cls": "TaskPool", "size": size}], "steps": steps})
    return cases[::thin] if thin > 1 else cases


def double_cancel_family(thin: int = 1) -> List[dict]:
    """A task cancelled by id sits in its slow cancel callback when its group / everything is cancelled as well (or it is named again),
    then the pool is flushed or closed:

        spawn (slow cancel callback) ; tick 3 ; cancel(id) ; tick a ; cancel_group / cancel_all / cancel(ids again) ; tick b ;
        flush / gather_and_close ; gate k ; settle ; drain"""
    cases: List[dict] = []
    slow = {"async": True, "wait": True}
    for size in (2, None):
        for kind, extra in (("apply", {"num": 3}), ("map", {"n": 4, "nc": 2})):
            for second in ("group", "all", "ids"):
                for fin, re_ in (("close", False), ("close", True), ("flush", False)):
                    for a, b in itertools.product(range(3), range(3)):
                        for k in range(3):
                            sp = {"op": "spawn", "pool": 0, "kind": kind, "place": "inline", "ccb": dict(slow), "ecb": {"async": False},
                                  "worker": {"script": [["wait"]], "fname": "w"}, **extra}
                            steps = [sp, {"op": "tick", "k": 3}, {"op": "cancel", "pool": 0, "refs": [["live", 0]], "place": "inline"}]
                            _ticks(steps, a)
                            steps.append({"op": "cancel_group", "pool": 0, "ref": ["live", 0], "place": "inline"} if second == "group" else
                                         {"op": "cancel_all", "pool": 0, "place": "inline"} if second == "all" else
                                         {"op": "cancel", "pool": 0, "refs": [["incb", 0], ["live", 0]], "place": "inline"})
                            _ticks(steps, b)
                            f = {"op": fin, "pool": 0, "place": "eager"}
                            if re_:
                                f["re"] = True
                            steps.append(f)
                            steps.append({"op": "gate", "k": k, "place": "inline"})
                            steps.append({"op": "settle"})
                            steps.extend(copy.deepcopy(DRAIN))
                            cases.append({"pools": [{"cls": "TaskPool", "size": size}], "steps": steps})
    return cases[::thin] if thin > 1 else cases


def abandon_then_close_family(thin: int = 1) -> List[dict]:
    """The caller of a blocked flush() gives up (is cancelled); asyncio.gather thereby cancels the task flush was waiting for, which
    sits in its slow end callback and now ends in asyncio's cancelled state. Healthy tasks are still running when the pool is closed:

        spawn 3 (slow end callback) ; tick 3 ; gate 0 (one returns) ; tick 1 ; flush (actor) ; tick a ; abandon ; tick b ;
        gather_and_close ; tick c ; gate k ; settle ; drain"""
    cases: List[dict] = []
    slow = {"async": True, "wait": True}
    for size in (3, None):
        for kind, extra in (("apply", {"num": 3}), ("map", {"n": 4, "nc": 3})):
            for re_ in (False, True):
                for place in ("eager", "task"):
                    for a, b, c in itertools.product(range(1, 3), range(3), range(2)):
                        for k in range(3):
                            sp = {"op": "spawn", "pool": 0, "kind": kind, "place": "inline", "ecb": dict(slow), "worker": {"script": [["wait"]], "fname": "w"}, **extra}
                            steps = [sp, {"op": "tick", "k": 3}, {"op": "gate", "k": 0, "place": "inline"}, {"op": "tick", "k": 1},
                                     {"op": "flush", "pool": 0, "place": "task"}, {"op": "tick", "k": a}, {"op": "abandon", "k": 0, "place": "inline"}]
                            _ticks(steps, b)
                            cl = {"op": "close", "pool": 0, "place": place}
                            if re_:
                                cl["re"] = True
                            steps.append(cl)
                            _ticks(steps, c)
                            steps.append({"op": "gate", "k": k, "place": "inline"})
                            steps.append({"op": "settle"})
                            steps.extend(copy.deepcopy(DRAIN))
                            cases.append({"pools": [{"cls": "TaskPool", "size": size}], "steps": steps})
    return cases[::thin] if thin > 1 else cases


def two_flushes_family(thin: int = 1) -> List[dict]:
    """Two flush() calls overlap: the first waits for a task in its slow end callback; another task ends (and sits in its callback)
    before the second flush starts; the callbacks are let go in either order; then every id is probed with cancel():

        spawn 3 (slow end callback) ; tick 3 ; gate 0 ; tick a ; flush A ; tick b ; gate 0 (next worker returns) ; tick c ; flush B ;
        gate k ; tick 1 ; cancel(ids) ; gate k2 ; settle ; cancel(ids) ; drain"""
    cases: List[dict] = []
    slow = {"async": True, "wait": True}
    probes = [[["any", 0]], [["any", 1]], [["any", 2], ["any", 1]], [["incb", 0]]]
    for size, into in ((3, "end"), (None, "end"), (3, "cancel"), (None, "cancel")):
        # into: how the tasks get into their slow callback - by returning (end callback) or by being cancelled (cancel callback)
        into_cb = ({"op": "gate", "k": 0, "place": "inline"} if into == "end" else {"op": "cancel", "pool": 0, "refs": [["live", 0]], "place": "inline"})
        for re_a, re_b in ((True, True), (False, True), (True, False)):
            for a, b, c in itertools.product(range(2), range(3), range(3)):
                for pr in probes:
                    for k, k2 in ((0, 0), (1, 0), (0, 1), (2, 0)):
                        sp = {"op": "spawn", "pool": 0, "kind": "apply", "num": 3, "place": "inline", ("ecb" if into == "end" else "ccb"): dict(slow),
                              "worker": {"script": [["wait"]], "fname": "w"}}
                        fa = {"op": "flush", "pool": 0, "place": "eager", **({"re": True} if re_a else {})}
                        fb = {"op": "flush", "pool": 0, "place": "task", **({"re": True} if re_b else {})}
                        steps = [sp, {"op": "tick", "k": 3}, dict(into_cb)]
                        _ticks(steps, a + 1)
                        steps.append(fa)
                        _ticks(steps, b)
                        steps.append(dict(into_cb))
                        _ticks(steps, c)
                        steps.append(fb)
                        steps.append({"op": "gate", "k": k, "place": "inline"})
                        steps.append({"op": "tick", "k": 1})
                        steps.append({"op": "cancel", "pool": 0, "refs": pr, "place": "inline"})
                        steps.append({"op": "gate", "k": k2, "place": "inline"})
                        steps.append({"op": "settle"})
                        steps.append({"op": "cancel", "pool": 0, "refs": pr, "place": "inline"})
                        steps.extend(copy.deepcopy(DRAIN))
                        cases.append({"pools": [{"cls": "TaskPool", "size": size}], "steps": steps})
    return cases[::thin] if thin > 1 else cases


def sibling_maps_family(thin: int = 1) -> List[dict]:
    """Two or three groups of the map family (and an apply) side by side, all with elements left; one is cancelled (or everything after
    one has finished); the others must go on to the end:

        spawn M1 ; spawn M2 ; [spawn M3 / apply] ; tick t ; cancel_group(one of them) ; gate k ; settle ; drain"""
    cases: List[dict] = []
    kinds = [("map", {"n": 4, "nc": 1}), ("starmap", {"n": 4, "nc": 2}), ("doublestarmap", {"n": 3, "nc": 1}), ("apply", {"num": 3})]
    for size in (2, 3, None):
        for combo in itertools.combinations(range(4), 2):
            for third in (None, 0, 3):
                for which in range(3 if third is not None else 2):
                    for t in range(4):
                        for k in range(2):
                            steps: List[dict] = []
                            members = list(combo) + ([third] if third is not None else [])
                            for j, m in enumerate(members):
                                kind, extra = kinds[m]
                                steps.append({"op": "spawn", "pool": 0, "kind": kind, "place": "inline", "worker": {"script": [["wait"]], "fname": "wx"[j % 2]}, **extra})
                            _ticks(steps, t)
                            steps.append({"op": "cancel_group", "pool": 0, "ref": ["live", which], "place": "inline"})
                            steps.append({"op": "gate", "k": k, "place": "inline"})
                            steps.append({"op": "settle"})
                            steps.extend(copy.deepcopy(DRAIN))
                            steps.extend(copy.deepcopy(DRAIN))
                            cases.append({"pools": [{"cls": "TaskPool", "size": size}], "steps": steps})
    return cases[::thin] if thin > 1 else cases


def failed_close_then_unlock_family(thin: int = 1) -> List[dict]:
    """gather_and_close() locks the pool, then raises a task's exception (the pool stays open and locked); unlock() opens it again and
    requests are accepted and run as before; a later gather_and_close(return_exceptions=True) closes it for good:

        spawn (one worker fails) ; tick 3 ; gather_and_close ; gate k ... ; settle ; <request: refused, locked> ; unlock ; <request> ;
        settle ; drain ; gather_and_close(return_exceptions=True) ; settle ; <request: refused, closed>"""
    cases: List[dict] = []
    for size in (2, None):
        for kind, extra in (("apply", {"num": 3}), ("map", {"n": 3, "nc": 2})):
            for ends in ([["raise"], ["ret"]], [["ret"], ["raise"], ["ret"]]):
                for place in ("eager", "task"):
                    for t in range(3):
                        for k2, extra2 in (("apply", {"num": 2}), ("map", {"n": 2, "nc": 1}), ("starmap", {"n": 2, "nc": 2})):
                            sp = {"op": "spawn", "pool": 0, "kind": kind, "place": "inline", "gname": [0, 1], "worker": {"script": [["wait"]], "fname": "w", "ends": ends}, **extra}
                            nxt = {"op": "spawn", "pool": 0, "kind": k2, "place": "inline", "worker": {"script": [["yield", 1]], "fname": "x"}, **extra2}
                            same_name = dict(copy.deepcopy(nxt), gname=[0, 1])      # a name that is taken: on a closed pool still PoolIsClosed
                            steps = [sp, {"op": "tick", "k": 3}, {"op": "close", "pool": 0, "place": place}]
                            _ticks(steps, t)
                            steps += [{"op": "gate_all", "place": "inline"}, {"op": "settle"}, {"op": "gate_all", "place": "inline"}, {"op": "settle"},
                                      copy.deepcopy(nxt), {"op": "unlock", "pool": 0, "place": "inline"}, copy.deepcopy(nxt), {"op": "settle"}]
                            steps.extend(copy.deepcopy(DRAIN))
                            steps += [{"op": "close", "pool": 0, "place": "eager", "re": True}, {"op": "settle"}, copy.deepcopy(nxt), same_name, {"op": "settle"}]
                            cases.append({"pools": [{"cls": "TaskPool", "size": size}], "steps": steps})
    return cases[::thin] if thin > 1 else cases


def swallow_then_cancel_again_family(thin: int = 1) -> List[dict]:
    """A worker shrugs off a first cancellation (catches CancelledError once and carries on) and is then cancelled again - by id, by
    group, globally or by stop(): the second cancellation must arrive like the first one:

        spawn (workers swallow one cancellation) ; tick 3 ; cancel(id) ; tick a ; gate? ; cancel(id) / cancel_group / cancel_all / stop ;
        tick b ; settle ; drain"""
    cases: List[dict] = []
    for cls in ("TaskPool", "SimpleTaskPool"):
        for size in (2, None):
            for second in ("id", "group", "all", "stop", "stop_all"):
                if cls == "TaskPool" and second.startswith("stop"):
                    continue
                for a, b in itertools.product(range(1, 4), range(2)):
                    for ccb in (None, {"async": False}, {"async": True, "wait": True}):
                        wk = {"script": [["wait"], ["wait"], ["wait"]], "fname": "w", "on_cancel": "swallow"}
                        sp = {"op": "spawn", "pool": 0, "kind": "apply", "num": 2, "place": "inline", "worker": dict(wk)}
                        if ccb is not None:
                            sp["ccb"] = dict(ccb)
                        steps = [sp, {"op": "tick", "k": 3}, {"op": "cancel", "pool": 0, "refs": [["live", 0]], "place": "inline"}, {"op": "tick", "k": a}]
                        steps.append({"op": "cancel", "pool": 0, "refs": [["live", 0]], "place": "inline"} if second == "id" else
                                     {"op": "cancel_group", "pool": 0, "ref": ["live", 0], "place": "inline"} if second == "group" else
                                     {"op": "cancel_all", "pool": 0, "place": "inline"} if second == "all" else
                                     {"op": "stop", "pool": 0, "n": 2, "place": "inline"} if second == "stop" else
                                     {"op": "stop", "pool": 0, "all": True, "place": "inline"})
                        _ticks(steps, b)
                        steps.append({"op": "settle"})
                        steps.extend(copy.deepcopy(DRAIN))
                        pool: Dict[str, Any] = {"cls": cls, "size": size}
                        if cls == "SimpleTaskPool":
                            pool["worker"] = dict(wk)
                            if ccb is not None:
                                pool["ccb"] = dict(ccb)
                        cases.append({"pools": [pool], "steps": steps})
    return cases[::thin] if thin > 1 else cases


def unlock_while_closing_family(thin: int = 1) -> List[dict]:
    """unlock() while a gather_and_close() is still waiting (no request is made in that window): the call still ends with the pool closed
    for good - requests are refused with PoolIsClosed, until_closed() returns:

        spawn ; tick 2 ; gather_and_close ; [until_closed] ; tick a ; unlock ; tick b ; gate_all ; settle ; drain ; <request: refused, closed>"""
    cases: List[dict] = []
    for size in (2, None):
        for kind, extra in (("apply", {"num": 3}), ("map", {"n": 3, "nc": 2})):
            for place in ("eager", "task"):
                for re_ in (False, True):
                    for a, b in itertools.product(range(3), range(2)):
                        for uc in (False, True):
                            sp = {"op": "spawn", "pool": 0, "kind": kind, "place": "inline", "worker": {"script": [["wait"]], "fname": "w"}, **extra}
                            nxt = {"op": "spawn", "pool": 0, "kind": "apply", "num": 1, "place": "inline", "worker": {"script": [], "fname": "x"}}
                            cl = {"op": "close", "pool": 0, "place": place, **({"re": True} if re_ else {})}
                            steps = [sp, {"op": "tick", "k": 2}, cl]
                            if uc:
                                steps.append({"op": "until_closed", "pool": 0, "place": "task"})
                            _ticks(steps, a)
                            steps.append({"op": "unlock", "pool": 0, "place": "inline"})
                            _ticks(steps, b)
                            steps += [{"op": "gate_all", "place": "inline"}, {"op": "settle"}]
                            steps.extend(copy.deepcopy(DRAIN))
                            steps += [nxt, {"op": "settle"}]
                            cases.append({"pools": [{"cls": "TaskPool", "size": size}], "steps": steps, "cfg": {"unlock_while_closing": True}})
    return cases[::thin] if thin > 1 else cases


def many_ended_family() -> List[dict]:
    """Hundreds of ended, never flushed tasks: every one of their ids still answers AlreadyEnded, alone and mixed with running ids."""
    cases: List[dict] = []
    for cls in ("TaskPool", "SimpleTaskPool"):
        for big in (600, 1100):
            for refs in ([["any", 0]], [["any", 1], ["any", big - 1]], [["live", 0], ["any", 0]], [["any", 300], ["live", 1]]):
                first = {"op": "spawn", "pool": 0, "kind": "apply", "num": big, "place": "inline", "worker": {"script": [], "fname": "w"}}
                second = {"op": "spawn", "pool": 0, "kind": "apply", "num": 2, "place": "inline", "worker": {"script": [["wait"]], "fname": "w"}}
                steps = [first, {"op": "settle"}, second, {"op": "tick", "k": 3}, {"op": "cancel", "pool": 0, "refs": refs, "place": "inline"},
                         {"op": "settle"}] + copy.deepcopy(DRAIN)
                pool: Dict[str, Any] = {"cls": cls, "size": None}
                if cls == "SimpleTaskPool":
                    pool["worker"] = {"script": [], "fname": "w"}
                cases.append({"pools": [pool], "steps": steps})
    return cases


def cancel_then_close_family(thin: int = 1) -> List[dict]:
    """A group is cancelled in the very tick it was requested (its spawner has not run yet) while a sibling's spawner still has work;
    gather_and_close() is called in that state: the sibling runs to the end, then the pool closes:

        spawn A ; spawn B ; tick t (0..1) ; cancel_group(A or B) ; gather_and_close ; tick ; gate_all ... ; settle ; drain"""
    cases: List[dict] = []
    kinds = [("map", {"n": 3, "nc": 1}), ("apply", {"num": 3}), ("starmap", {"n": 3, "nc": 2})]
    for size in (1, 2):
        for ka, kb in itertools.product(range(3), range(3)):
            for which in (0, 1):
                for t in (0, 1):
                    for re_ in (True, False):
                        for place in ("eager", "task"):
                            steps: List[dict] = []
                            for j, m in enumerate((ka, kb)):
                                kind, extra = kinds[m]
                                steps.append({"op": "spawn", "pool": 0, "kind": kind, "place": "inline", "worker": {"script": [["wait"]], "fname": "wx"[j]}, **extra})
                            _ticks(steps, t)
                            steps.append({"op": "cancel_group", "pool": 0, "ref": ["live", which], "place": "inline"})
                            steps.append({"op": "close", "pool": 0, "place": place, **({"re": True} if re_ else {})})
                            steps.append({"op": "until_closed", "pool": 0, "place": "task"})
                            steps.append({"op": "tick", "k": 2})
                            steps.extend(copy.deepcopy(DRAIN))
                            steps.extend(copy.deepcopy(DRAIN))
                            cases.append({"pools": [{"cls": "TaskPool", "size": size}], "steps": steps})
    return cases[::thin] if thin > 1 else cases


def big_stop_family() -> List[dict]:
    """stop(n) with n in the hundreds among 300 running tasks of a SimpleTaskPool (numbers beyond the small-integer cache)."""
    cases: List[dict] = []
    for n in (255, 256, 257, 258, 290):
        for extra in (0, 1):
            steps = [{"op": "spawn", "pool": 0, "kind": "start", "num": 300, "place": "inline"}, {"op": "settle"}]
            if extra:
                steps += [{"op": "cancel", "pool": 0, "refs": [["live", 5], ["live", 17]], "place": "inline"}, {"op": "settle"}]
            steps += [{"op": "stop", "pool": 0, "n": n, "place": "inline"}, {"op": "settle"}, {"op": "stop", "pool": 0, "n": 3, "place": "inline"}, {"op": "settle"}]
            steps += copy.deepcopy(DRAIN)
            cases.append({"pools": [{"cls": "SimpleTaskPool", "size": None, "worker": {"script": [["wait"]], "fname": "w"}}], "steps": steps})
    return cases
