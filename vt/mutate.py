"""Automatic syntactic mutants of the library: which ones survive the repository's tests, and of those which survive the checks.

Usage: python vt/mutate.py list <file>                         -> number of mutants
       python vt/mutate.py run <file> <out.jsonl> [start] [stop] [--checks C01,C02,...]
Mutants are applied to a scratch copy of /repo outside /repo and /verif and removed afterwards.
"""
from __future__ import annotations

import ast
import copy
import json
import os
import shutil
import subprocess
import sys
import tempfile
from typing import Any, List, Tuple

VERIF = os.path.dirname(os.path.dirname(os.path.abspath(__file__)))

CMP = {ast.Lt: ast.LtE, ast.LtE: ast.Lt, ast.Gt: ast.GtE, ast.GtE: ast.Gt, ast.Eq: ast.NotEq, ast.NotEq: ast.Eq,
       ast.Is: ast.IsNot, ast.IsNot: ast.Is, ast.In: ast.NotIn, ast.NotIn: ast.In}


def is_log_call(node: ast.AST) -> bool:
    if isinstance(node, ast.Expr) and isinstance(node.value, ast.Call):
        f = node.value.func
        if isinstance(f, ast.Attribute) and isinstance(f.value, ast.Name) and f.value.id in ("log", "warnings"):
            return True
    return False


def is_docstring(node: ast.AST) -> bool:
    return isinstance(node, ast.Expr) and isinstance(node.value, ast.Constant) and isinstance(node.value.value, str)


def sites(tree: ast.AST) -> List[Tuple[str, Any]]:
    """Enumerates mutation sites as (kind, path) where path locates the node by a pre-order index."""
    out: List[Tuple[str, Any]] = []
    for idx, node in enumerate(ast.walk(tree)):
        if isinstance(node, (ast.If, ast.While)) and not isinstance(node.test, ast.Constant):
            out.append(("negate-condition", idx))
        if isinstance(node, ast.Compare) and len(node.ops) == 1 and type(node.ops[0]) in CMP:
            out.append(("swap-comparison", idx))
        if isinstance(node, ast.BoolOp):
            out.append(("and-or", idx))
        if isinstance(node, ast.Constant) and isinstance(node.value, bool):
            out.append(("flip-bool", idx))
        if isinstance(node, ast.Constant) and isinstance(node.value, int) and not isinstance(node.value, bool) and node.value in (0, 1, 2):
            out.append(("int+1", idx))
        if isinstance(node, ast.Return) and node.value is not None and not (isinstance(node.value, ast.Constant) and node.value.value is None):
            out.append(("return-none", idx))
        if isinstance(node, (ast.Continue,)):
            out.append(("continue->break", idx))
        if isinstance(node, ast.Break):
            out.append(("break->continue", idx))
        if isinstance(node, (ast.Expr, ast.Assign, ast.AugAssign, ast.AnnAssign, ast.Raise)) and not is_log_call(node) and not is_docstring(node):
            if isinstance(node, ast.AnnAssign) and node.value is None:
                continue
            out.append(("delete-statement", idx))
        if isinstance(node, ast.AugAssign) and isinstance(node.op, (ast.Add, ast.Sub)):
            out.append(("augassign-sign", idx))
        if isinstance(node, ast.Await) and isinstance(getattr(node, "value", None), ast.Call):
            pass
        if isinstance(node, ast.UnaryOp) and isinstance(node.op, ast.Not):
            out.append(("drop-not", idx))
        if isinstance(node, (ast.FunctionDef, ast.AsyncFunctionDef, ast.If, ast.For, ast.While, ast.Try, ast.With, ast.AsyncWith, ast.ExceptHandler)):
            for field in ("body", "orelse", "finalbody"):
                lst = getattr(node, field, None)
                if isinstance(lst, list):
                    for j in range(len(lst) - 1):
                        a, b = lst[j], lst[j + 1]
                        if is_docstring(a) or is_log_call(a) or is_log_call(b):
                            continue
                        if isinstance(b, (ast.Return, ast.Raise, ast.Continue, ast.Break)) or isinstance(a, (ast.Return, ast.Raise)):
                            continue
                        out.append((f"swap-statements:{field}:{j}", idx))
    return out


def apply(tree: ast.AST, kind: str, idx: int) -> bool:
    for i, node in enumerate(ast.walk(tree)):
        if i != idx:
            continue
        if kind == "negate-condition":
            node.test = ast.UnaryOp(op=ast.Not(), operand=node.test)  # type: ignore[attr-defined]
        elif kind == "swap-comparison":
            node.ops = [CMP[type(node.ops[0])]()]  # type: ignore[attr-defined]
        elif kind == "and-or":
            node.op = ast.Or() if isinstance(node.op, ast.And) else ast.And()  # type: ignore[attr-defined]
        elif kind == "flip-bool":
            node.value = not node.value  # type: ignore[attr-defined]
        elif kind == "int+1":
            node.value = node.value + 1  # type: ignore[attr-defined]
        elif kind == "return-none":
            node.value = ast.Constant(value=None)  # type: ignore[attr-defined]
        elif kind in ("continue->break", "break->continue", "delete-statement"):
            return replace_stmt(tree, node, ast.Break() if kind == "continue->break" else ast.Continue() if kind == "break->continue" else ast.Pass())
        elif kind == "augassign-sign":
            node.op = ast.Sub() if isinstance(node.op, ast.Add) else ast.Add()  # type: ignore[attr-defined]
        elif kind == "drop-not":
            return replace_expr(tree, node, node.operand)  # type: ignore[attr-defined]
        elif kind.startswith("swap-statements:"):
            _, field, j = kind.split(":")
            lst = getattr(node, field)
            lst[int(j)], lst[int(j) + 1] = lst[int(j) + 1], lst[int(j)]
        return True
    return False


def replace_stmt(tree: ast.AST, target: ast.AST, new: ast.AST) -> bool:
    for parent in ast.walk(tree):
        for field in ("body", "orelse", "finalbody"):
            lst = getattr(parent, field, None)
            if isinstance(lst, list):
                for j, ch in enumerate(lst):
                    if ch is target:
                        lst[j] = ast.copy_location(new, target)
                        return True
    return False


def replace_expr(tree: ast.AST, target: ast.AST, new: ast.AST) -> bool:
    for parent in ast.walk(tree):
        for field, value in ast.iter_fields(parent):
            if value is target:
                setattr(parent, field, new)
                return True
            if isinstance(value, list):
                for j, ch in enumerate(value):
                    if ch is target:
                        value[j] = new
                        return True
    return False


def describe(src: str, kind: str, idx: int) -> str:
    tree = ast.parse(src)
    for i, node in enumerate(ast.walk(tree)):
        if i == idx:
            line = getattr(node, "lineno", 0)
            if kind.startswith("swap-statements:"):
                _, field, j = kind.split(":")
                st = getattr(node, field)[int(j)]
                line = st.lineno
            text = src.splitlines()[line - 1].strip() if line else ""
            return f"{kind} @ line {line}: {text[:100]}"
    return kind


def checks_for(rel: str) -> List[str]:
    if "queue_context" in rel:
        return ["C20"]
    if "control" in rel:
        return ["C16", "C17", "C18", "C19"]
    if "helpers" in rel:
        return ["C03", "C05", "C12", "C17", "C18", "C16"]
    if "group_register" in rel:
        return ["C10", "C07", "C02", "C04"]
    return ["C02", "C03", "C07", "C08", "C04", "C05", "C06", "C09", "C10", "C11", "C13", "C14", "C15", "C01", "C12"]


def main() -> int:
    cmd, rel = sys.argv[1], sys.argv[2]
    path = os.path.join("/repo", rel)
    src = open(path).read()
    tree = ast.parse(src)
    ss = sites(tree)
    if cmd == "list":
        print(len(ss))
        return 0
    out = sys.argv[3]
    args = [a for a in sys.argv[4:] if not a.startswith("--")]
    start = int(args[0]) if args else 0
    stop = int(args[1]) if len(args) > 1 else len(ss)
    step = int(args[2]) if len(args) > 2 else 1
    checks = checks_for(rel)
    for a in sys.argv[4:]:
        if a.startswith("--checks"):
            checks = a.split("=", 1)[1].split(",")
    only = None
    for a in sys.argv[4:]:
        if a.startswith("--only="):
            only = {int(x) for x in a.split("=", 1)[1].split(",") if x}
    scratch = tempfile.mkdtemp(prefix="mut-", dir="/tmp")
    repo = os.path.join(scratch, "repo")
    shutil.copytree("/repo", repo, ignore=shutil.ignore_patterns(".git", "__pycache__", "*.pyc", ".pytest_cache", "docs"))
    try:
        for n in range(start, min(stop, len(ss)), step):
            if only is not None and n not in only:
                continue
            kind, idx = ss[n]
            t = ast.parse(src)
            if not apply(t, kind, idx):
                continue
            try:
                new_src = ast.unparse(t)
                compile(new_src, rel, "exec")
            except Exception:
                continue
            with open(os.path.join(repo, rel), "w") as fh:
                fh.write(new_src)
            rec = {"n": n, "file": rel, "mutant": describe(src, kind, idx)}
            env = dict(os.environ, PYTHONPATH=os.path.join(repo, "src"), PYTHONDONTWRITEBYTECODE="1")
            r = subprocess.run("timeout 300 /venv/bin/python -m pytest -q -x -p no:cacheprovider 2>&1 | tail -1", shell=True, cwd=repo, env=env,
                               capture_output=True, text=True)
            rec["suite"] = r.stdout.strip()[:60]
            if " passed" not in r.stdout or "failed" in r.stdout or "error" in r.stdout:
                rec["status"] = "killed-by-suite"
            elif "--suite-only" in sys.argv:
                rec["status"] = "survived-suite"
            else:
                rec["status"] = "survived"
                outdir = os.path.join(scratch, "out")
                for pid in checks:
                    env2 = dict(os.environ, VERIF_REPO=repo, VERIF_OUT=outdir)
                    env2.pop("PYTHONPATH", None)
                    rr = subprocess.run(f"timeout 900 {VERIF}/check {pid} --tier quick", shell=True, cwd=VERIF, env=env2, capture_output=True, text=True)
                    if rr.returncode == 1:
                        sig = [l.strip() for l in rr.stdout.splitlines() if l.strip().startswith("signature=")]
                        rec["status"] = "killed-by-check"
                        rec["check"] = pid
                        rec["signature"] = sig[0][:160] if sig else ""
                        break
                    if rr.returncode == 2:
                        rec.setdefault("harness_errors", []).append(pid)
                shutil.rmtree(outdir, ignore_errors=True)
            with open(out, "a") as fh:
                fh.write(json.dumps(rec) + "\n")
            with open(os.path.join(repo, rel), "w") as fh:
                fh.write(src)
    finally:
        shutil.rmtree(scratch, ignore_errors=True)
    return 0


if __name__ == "__main__":
    sys.exit(main())
