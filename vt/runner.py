"""Check runner: replay tier, sharded random tier (Hypothesis), optional exhaustive sweep, shrinking, evidence."""
from __future__ import annotations

import glob
import json
import multiprocessing as mp
import os
import signal
import sys
import time
import traceback
from collections import Counter
from typing import Any, Callable, Dict, List, Optional, Tuple

from .common import REPO, VERIF, CaseTimeout, HarnessError, canon, h8, seed_value, setup_path

KNOWN_FILE = os.path.join(VERIF, "KNOWN_FINDINGS.txt")
OUT = os.environ.get("VERIF_OUT", VERIF)     # where evidence and newly found replays go (selftest redirects it)
CASE_TIMEOUT = 20



def _alarm(signum: int, frame: Any) -> None:
    raise CaseTimeout()


def load_known() -> Dict[str, Dict[str, str]]:
    """property id -> {signature: text} for `open:` lines."""
    out: Dict[str, Dict[str, str]] = {}
    if not os.path.exists(KNOWN_FILE):
        return out
    for line in open(KNOWN_FILE):
        line = line.strip()
        if not line.startswith("open:"):
            continue
        parts = line[5:].split()
        kv = dict(p.split("=", 1) for p in parts[:2] if "=" in p)
        pid, sig = kv.get("property"), kv.get("signature")
        if pid and sig:
            out.setdefault(pid, {})[sig] = " ".join(parts[2:])
    return out


class Agg:
    """What a set of executed cases covered."""

    def __init__(self) -> None:
        self.evaluations = 0
        self.nontrivial: set = set()
        self.labels: Counter = Counter()
        self.stats: Counter = Counter()
        self.inconclusive = 0
        self.viol: Dict[str, dict] = {}      # signature -> {count, program, detail, props}
        self.samples: List[Any] = []
        self.errors: List[str] = []
        self.timeouts: List[Any] = []

    def add_case(self, case: Any, out: dict, pid: str, nontrivial: bool) -> None:
        self.evaluations += 1
        if nontrivial:
            hh = h8(case)
            if hh not in self.nontrivial:
                self.nontrivial.add(hh)
                if len(self.samples) < 2:
                    self.samples.append(case)
        for l in out.get("labels", ()):
            self.labels[l] += 1
        for k, v in out.get("stats", {}).items():
            if k.startswith(("excluded", "known", "peek")):
                self.stats[k] += v
        if out.get("inconclusive"):
            self.inconclusive += 1
        if out.get("error"):
            if len(self.errors) < 3:
                self.errors.append(out["error"])
            self.stats["harness_errors"] += 1
        for v in out.get("violations", ()):
            if pid not in v["props"]:
                self.stats["other_property_signals"] += 1
                continue
            ent = self.viol.setdefault(v["clause"], {"count": 0, "program": case, "detail": v["detail"], "props": v["props"], "size": 10 ** 9})
            ent["count"] += 1
            sz = len(canon(case))
            if sz < ent["size"]:
                ent.update(program=case, detail=v["detail"], size=sz)

    def merge(self, o: "Agg") -> None:
        self.evaluations += o.evaluations
        self.nontrivial |= o.nontrivial
        self.labels.update(o.labels)
        self.stats.update(o.stats)
        self.inconclusive += o.inconclusive
        for s in o.samples:
            if len(self.samples) < 3:
                self.samples.append(s)
        self.errors.extend(o.errors[: max(0, 3 - len(self.errors))])
        self.timeouts.extend(o.timeouts)
        for sig, ent in o.viol.items():
            mine = self.viol.get(sig)
            if mine is None:
                self.viol[sig] = ent
            else:
                mine["count"] += ent["count"]
                if ent["size"] < mine["size"]:
                    mine.update(program=ent["program"], detail=ent["detail"], size=ent["size"])


class Engine:
    """Interface a property module offers to the runner."""

    pid: str = ""
    rule: str = ""
    assumptions: List[str] = []
    bounds: Dict[str, Any] = {}

    def strategies(self, tier: str) -> List[Tuple[str, Any, int]]:
        """[(name, hypothesis strategy, number of examples)]"""
        raise NotImplementedError

    def run_case(self, case: Any) -> dict:
        """-> {violations:[{props,clause,detail}], labels:[..], stats:{}, inconclusive, error}"""
        raise NotImplementedError

    def nontrivial(self, case: Any, out: dict) -> bool:
        raise NotImplementedError

    def sweep(self, tier: str) -> Optional[Tuple[str, Any, int]]:
        """(description, iterable of cases, count) for an exhaustively enumerated finite sub-space, or None."""
        return None

    def shrink_candidates(self, case: Any) -> List[Any]:
        return []

    def floors(self) -> Dict[str, float]:
        return {}


def timed_case(engine: Engine, case: Any) -> dict:
    signal.signal(signal.SIGALRM, _alarm)
    # repeating: if the case's own clean-up (draining the loop) hangs as well, the next alarm breaks that too
    signal.setitimer(signal.ITIMER_REAL, CASE_TIMEOUT, 3)
    try:
        try:
            return engine.run_case(case)
        except CaseTimeout:
            return {"violations": [], "labels": [], "stats": {}, "timeout": True}
    except CaseTimeout:
        return {"violations": [], "labels": [], "stats": {}, "timeout": True}
    finally:
        signal.setitimer(signal.ITIMER_REAL, 0)


def _shard(args: Tuple[str, str, int, int, int]) -> Agg:
    modname, tier, seed, shard, nshards = args
    setup_path()
    import importlib
    from hypothesis import HealthCheck, Phase, given, seed as hseed, settings
    engine: Engine = importlib.import_module(modname).ENGINE
    agg = Agg()
    for si, (name, strat, n) in enumerate(engine.strategies(tier)):
        per = max(1, n // nshards)

        @hseed((seed * 64 + shard) * 16 + si)
        @settings(max_examples=per, database=None, deadline=None, phases=[Phase.generate],
                  suppress_health_check=list(HealthCheck), report_multiple_bugs=False)
        @given(strat)
        def test(case: Any) -> None:
            if len(agg.timeouts) >= 2:
                agg.stats["skipped_after_timeouts"] += 1     # a tree on which cases hang: do not spend 20 s on each
                return
            out = timed_case(engine, case)
            if out.get("timeout"):
                agg.timeouts.append(case)
                agg.evaluations += 1
                return
            agg.add_case(case, out, engine.pid, engine.nontrivial(case, out))
            agg.stats["strategy:" + name] += 1

        test()
    return agg


def _sweep_chunk(args: Tuple[str, str, int, int]) -> Agg:
    modname, tier, part, nparts = args
    setup_path()
    import importlib
    engine: Engine = importlib.import_module(modname).ENGINE
    agg = Agg()
    sw = engine.sweep(tier)
    assert sw is not None
    _, cases, _ = sw
    for i, case in enumerate(cases):
        if i % nparts != part:
            continue
        if len(agg.timeouts) >= 2:
            agg.stats["skipped_after_timeouts"] += 1
            continue
        out = timed_case(engine, case)
        if out.get("timeout"):
            agg.timeouts.append(case)
            agg.evaluations += 1
            continue
        agg.add_case(case, out, engine.pid, engine.nontrivial(case, out))
    return agg


def ddmin(engine: Engine, case: Any, sig: str, pid: str, budget_s: float = 60.0) -> Any:
    """Greedy reduction over the engine's own candidate simplifications, keeping the signature."""
    t0 = time.time()

    def still(c: Any) -> bool:
        try:
            out = timed_case(engine, c)
        except Exception:
            return False
        return any(v["clause"] == sig and pid in v["props"] for v in out.get("violations", ()))

    cur = case
    improved = True
    while improved and time.time() - t0 < budget_s:
        improved = False
        for cand in engine.shrink_candidates(cur):
            if time.time() - t0 > budget_s:
                break
            if still(cand):
                cur = cand
                improved = True
                break
    return cur


def run_check(modname: str, tier: str, replay: Optional[str] = None) -> int:
    setup_path()
    import importlib
    t0 = time.time()
    seed = seed_value()
    try:
        engine: Engine = importlib.import_module(modname).ENGINE
    except Exception:
        traceback.print_exc()
        print("HARNESS-ERROR: cannot load engine / tree under test", file=sys.stderr)
        return 2
    pid = engine.pid
    known = load_known().get(pid, {})
    total = Agg()
    tiers: Dict[str, Any] = {}

    # ---- single replay requested
    if replay is not None:
        case = json.load(open(replay))
        case = case.get("case", case) if isinstance(case, dict) and "case" in case else case
        out = timed_case(engine, case)
        bad = [v for v in out.get("violations", ()) if pid in v["props"] and v["clause"] not in known]
        for v in out.get("violations", ()):
            if pid in v["props"] and v["clause"] in known:
                print(f"KNOWN-FINDING: property={pid} {v['clause']}: {known[v['clause']]}")
            print(("VIOLATION-DETAIL " if pid in v["props"] else "other-property ") + json.dumps(v))
        if out.get("timeout"):
            print(f"VIOLATION property={pid} replay={replay}")
            return 1
        if bad:
            print(f"VIOLATION property={pid} replay={replay}")
            return 1
        print("replay: property held")
        return 0

    # ---- replay tier
    rp = Agg()
    for f in sorted(glob.glob(os.path.join(VERIF, "replays", pid, "*.json"))):
        try:
            doc = json.load(open(f))
        except Exception:
            continue
        case = doc["case"] if isinstance(doc, dict) and "case" in doc else doc
        out = timed_case(engine, case)
        if out.get("timeout"):
            rp.timeouts.append(case)
        else:
            rp.add_case(case, out, pid, engine.nontrivial(case, out))
        for ent in rp.viol.values():
            ent.setdefault("replay_file", f)
    tiers["replay"] = rp.evaluations
    total.merge(rp)

    # ---- random tier
    nshards = int(os.environ.get("VERIF_SHARDS", "8" if tier == "quick" else "16"))
    ctx = mp.get_context("fork")
    try:
        with ctx.Pool(nshards) as pool:
            parts = pool.map(_shard, [(modname, tier, seed, s, nshards) for s in range(nshards)])
            for p in parts:
                total.merge(p)
            tiers["random"] = sum(p.evaluations for p in parts)
            sw = engine.sweep(tier)
            if sw is not None:
                desc, _, count = sw
                sparts = pool.map(_sweep_chunk, [(modname, tier, s, nshards) for s in range(nshards)])
                n = 0
                for p in sparts:
                    total.merge(p)
                    n += p.evaluations
                tiers["sweep"] = {"description": desc, "enumerated": n, "expected": count, "exhaustive": n == count}
    except Exception:
        traceback.print_exc()
        print("HARNESS-ERROR: shard failure", file=sys.stderr)
        return 2

    # ---- hangs: re-run alone before believing them
    hang_cases = []
    for case in total.timeouts[:3]:
        out = timed_case(engine, case)
        if out.get("timeout"):
            hang_cases.append(case)
        else:
            total.stats["timeouts_not_reproduced"] += 1

    # ---- decide
    rc = 0
    lines: List[str] = []
    new_viol = 0
    os.makedirs(os.path.join(OUT, "replays", pid), exist_ok=True)
    for sig, ent in sorted(total.viol.items()):
        if sig in known:
            lines.append(f"KNOWN-FINDING: property={pid} {sig}: {known[sig]} (seen {ent['count']}x)")
            continue
        new_viol += 1
        case = ent["program"]
        small = ddmin(engine, case, sig, pid, budget_s=20 if tier == "quick" else 120)
        out = timed_case(engine, small)
        det = [v for v in out.get("violations", ()) if v["clause"] == sig]
        if not det:
            small = case
        path = ent.get("replay_file") or os.path.join(OUT, "replays", pid, f"found-{sig.replace('/', '_')}-{h8(small)}.json")
        if not ent.get("replay_file"):
            with open(path, "w") as fh:
                json.dump({"property": pid, "signature": sig, "detail": det[0]["detail"] if det else ent["detail"], "case": small}, fh, indent=1, default=str)
        lines.append(f"VIOLATION property={pid} replay={path}")
        lines.append(f"  signature={sig} count={ent['count']} detail={ent['detail']}")
        rc = 1
    for case in hang_cases:
        path = os.path.join(OUT, "replays", pid, f"found-hang-{h8(case)}.json")
        with open(path, "w") as fh:
            json.dump({"property": pid, "signature": "hang", "case": case}, fh, indent=1, default=str)
        lines.append(f"VIOLATION property={pid} replay={path}")
        lines.append("  signature=hang (case did not finish within %ds, twice)" % CASE_TIMEOUT)
        new_viol += 1
        rc = 1
    if total.errors:
        print("HARNESS-ERROR (first):\n" + total.errors[0], file=sys.stderr)
        if rc == 0:
            rc = 2

    # ---- evidence
    floors = engine.floors()
    label_frac = {k: round(v / max(1, total.evaluations), 4) for k, v in sorted(total.labels.items())}
    below = {k: f for k, f in floors.items() if label_frac.get(k, 0.0) < f}
    ev = {
        "property_id": pid,
        "tier": tier,
        "seed": seed,
        "level": "exploration",
        "coverage": {
            "evaluations": total.evaluations,
            "distinct_nontrivial": len(total.nontrivial),
            "rule": engine.rule,
            "samples": total.samples[:2],
            "tiers": tiers,
            "labels": dict(sorted(total.labels.items())),
            "label_fraction_floors": floors,
            "labels_below_floor": below,
            "inconclusive_cases": total.inconclusive,
            "counters": dict(total.stats),
            "bounds": engine.bounds,
            "shards": nshards,
            "known_findings_seen": sorted(s for s in total.viol if s in known),
            "exhaustive": False,   # the random tier never is; see sweep_exhaustive for the enumerated sub-space
            "python": sys.version.split()[0],
            "tree": REPO,
        },
        "assumptions": engine.assumptions,
        "wall_s": round(time.time() - t0, 2),
        "violations": new_viol,
    }
    if isinstance(tiers.get("sweep"), dict):
        ev["coverage"]["sweep_exhaustive"] = tiers["sweep"]["exhaustive"]
    os.makedirs(os.path.join(OUT, "evidence"), exist_ok=True)
    with open(os.path.join(OUT, "evidence", f"{pid}.json"), "w") as fh:
        json.dump(ev, fh, indent=1, default=str)
    for l in lines:
        print(l)
    print(f"{pid} {tier}: {total.evaluations} cases, {len(total.nontrivial)} distinct non-trivial, "
          f"{new_viol} violation signature(s), {total.inconclusive} inconclusive, {ev['wall_s']}s")
    return rc
