"""Entry point: ./check <ID> [--tier quick|thorough] [--replay PATH]"""
import argparse
import os
import sys

sys.path.insert(0, os.path.dirname(os.path.dirname(os.path.abspath(__file__))))


def main() -> int:
    ap = argparse.ArgumentParser()
    ap.add_argument("pid")
    ap.add_argument("--tier", default=os.environ.get("VERIF_TIER", "quick"), choices=["quick", "thorough"])
    ap.add_argument("--replay", default=None)
    a = ap.parse_args()
    from vt.common import setup_path
    setup_path()
    try:
        import hypothesis  # noqa: F401
    except ImportError:
        print("HARNESS-ERROR: hypothesis is not importable; run MANIFEST.setup_cmd", file=sys.stderr)
        return 2
    from vt.runner import run_check
    mod = "vt.props." + a.pid.lower()
    try:
        return run_check(mod, a.tier, a.replay)
    except SystemExit:
        raise
    except BaseException:
        import traceback
        traceback.print_exc()
        print("HARNESS-ERROR: unexpected failure in the check runner", file=sys.stderr)
        return 2


if __name__ == "__main__":
    sys.exit(main())
