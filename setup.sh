#!/bin/sh
# Offline set-up: make sure hypothesis is importable by /venv/bin/python (installs from the local wheelhouse into .deps if not).
cd "$(dirname "$0")" || exit 2
if /venv/bin/python -c "import hypothesis" 2>/dev/null; then
  echo "hypothesis present in /venv"
else
  mkdir -p .deps
  PIP_NO_INDEX=1 /venv/bin/pip install --no-index --find-links /opt/veriftools/wheels --target .deps hypothesis || exit 2
fi
PYTHONPATH=.deps /venv/bin/python -c "import hypothesis; print('hypothesis', hypothesis.__version__)" || exit 2
