"""Re-verifies every seeded change (./selftest) against its target check (and optionally more) and writes seeded/<id>/meta.json + SEEDED.md.

usage: /venv/bin/python tools_seeded.py [--all-checks] [ids...]
"""
import json
import os
import subprocess
import sys
from concurrent.futures import ThreadPoolExecutor

VERIF = os.path.dirname(os.path.abspath(__file__))
ALL = [f"C{i:02d}" for i in range(1, 21)]
OUT_OF_SCOPE = {
    "C11_d": "needs a loop with asyncio.eager_task_factory; the explored configuration is the default task factory (DESIGN 9, 10.6)",
    "C09_i": "not a violation of the statement: the only trace of the rejected construction is the numbering of later unnamed pools, which 'nothing changes' (groups, tasks, func, iterable) does not cover - the unchanged tree leaves the same trace for a negative pool size",
    "C16_i": "written against C16 but breaks C18 (an exception escapes the session); caught by the C18 check",
    "C17_h": "written against C17 but breaks C18/C16 (replies of one session end up in another's buffer); caught by the C16 and C18 checks, the C17 programs contain no help requests or malformed lines",
    "C19_h": "written against C19 but breaks C18/C16 (same parser cache); caught by the C16 and C18 checks",
    "C18_j": "written against C18 but lives in the server's connection callback (overlapping handshakes of two clients): caught by the C19 check, the C18 harness drives sessions directly",
    "C01_k": "written against C01 but needs pool_size to be assigned (on an idle unbounded pool), which C01 fixes 'while tasks are in flight': caught by the C15 check",
    "C15_k": "only reachable through the control interface ('pool-size 0' treated as a read): caught by the C16 and C17 checks",
    "C01_l": "written against C01 but only reachable through the control interface ('pool-size 0' treated as a read, like C15_k): caught by the C16 and C17 checks",
    "C01_m": "written against C01 but needs pool_size to be assigned (like C01_k): caught by the C15 check, which got a two-pools share for it",
    "C01_o": "written against C01 but only reachable through the control interface (the annotation of pool_size decides what 'pool-size 2.5' converts to): caught by the C16 check",
    "C02_o": "needs cancel_all()/cancel_group() of a group issued from that group's own argument iterator while its meta task runs - the re-entrant case the statements of C02/C07 exclude (DESIGN 6)",
    "C06_o": "written against C06 but is a flush defect (a task forgotten only from the register it was in when flush started): the ids a later cancel() is judged by come from the same model that C13 corrects; caught by the C13 check",
    "C01_p": "written against C01 but needs pool_size to be assigned (after a flush on an idle pool): caught by the C15 check",
    "C10_p": "needs map()/starmap()/doublestarmap() to be given something that is not iterable - outside the documented input domain (on the unchanged tree such a request is accepted and its spawner dies); not generated",
    "C19_r": "needs a pool task left in asyncio's cancelled state by user code that raises CancelledError, then a 'flush' command over it: the socket engine drives an empty pool (the pool engine covers such tasks, the in-process session engine has no real connection to leave open); not generated",
    "C19_s": "needs serve_forever() to be called a second time on a TCP server that is already serving on a fixed port (the call fails with EADDRINUSE): starting a running server again is not among the orders of connect / command / disconnect / stop the statement quantifies over; the check restarts only after a stop and uses ephemeral ports",
    "C16_u": "written against C16 but is about how a command line is split into tokens (shlex instead of split): replies and effects of commands with quotes differ from the method call -> caught by the C17 check (1100 programs) and the C18 check",
    "C18_u": "written against C18 but lives in the server's connection callback (connections registered by peer address, which is '' for every Unix client): caught by the C19 check, the C18 harness drives sessions directly",
    "C01_v": "needs a user function that returns a hand-written collections.abc.Coroutine object without __qualname__ instead of a coroutine: workers here return real coroutines (or, as a fault, no coroutine at all); not generated",
    "C06_v": "not a violation as the oracle reads the statement: with several offending ids of different kinds, *which* of the applicable errors is raised is left open (DESIGN 6, set-valued oracles); nothing is cancelled in either version",
    "C01_x": "needs cancel_group() of a group issued from that group's own argument iterator - the re-entrant case the statements exclude (DESIGN 6), like C02_o",
    "C02_x": "needs a user function that returns a hand-written collections.abc.Coroutine object instead of a coroutine (like C01_v); not generated",
    "C12_x": "needs a user cancel callback that itself raises CancelledError (raised, not delivered): user code raising CancelledError inside callbacks is not generated (it is for argument iterators and worker bodies)",
    "C15_x": "only reachable through the control interface ('pool-size -0.5' converted leniently): caught by the C18 check ('pool-size 1.5' must be refused, the pool untouched)",
    "C19_x": "written against C19 but is the session's reply buffer (help and error replies empty from the second command on): caught by the C16 and C18 checks; the C19 clients send property reads only",
    "C04_j": "needs pool_size to be reassigned while a spawner waits for room - the territory of the open finding D4 (on the unchanged tree such a waiter also stays blocked after the assignment), where completeness is not demanded",
}


def one(name: str, all_checks: bool) -> dict:
    d = os.path.join(VERIF, "seeded", name)
    am = json.load(open(os.path.join(d, "agent_meta.json")))
    checks = ALL if all_checks else [am["property"]]
    env = dict(os.environ, VERIF_SHARDS="4")
    r = subprocess.run([os.path.join(VERIF, "selftest"), d] + checks, capture_output=True, text=True, env=env)
    try:
        res = json.loads(r.stdout.strip().splitlines()[-1])
    except Exception:
        res = {"error": (r.stdout + r.stderr)[-500:]}
    meta = {
        "id": name, "property": am["property"], "summary": am.get("summary"), "needs": am.get("needs"), "files": am.get("files"),
        "origin": "written by an independent sub-agent that saw only the property text and a scratch worktree (round %d)" % {"a": 1, "b": 1, "c": 2, "d": 2, "e": 3, "f": 4, "g": 5, "h": 6, "i": 6, "j": 7, "k": 8, "l": 9, "m": 10, "n": 11, "o": 12, "p": 13, "q": 14, "r": 15, "s": 16, "t": 17, "u": 18, "v": 19, "w": 20, "x": 21, "y": 22}.get(name[-1], 0),
        "verified": {"how": "./selftest seeded/%s %s  (scratch copy of /repo + patch.diff; repository test suite; demo.py against the changed and the unchanged source; checks' quick tier with VERIF_REPO=<copy>)" % (name, " ".join(checks)),
                     "patch_applies": res.get("patch_applies"), "suite": res.get("suite"),
                     "demo_exit_with_change": res.get("demo_with"), "demo_exit_without_change": res.get("demo_without")},
        "caught_by": res.get("caught_by"),
        "signatures": {k: v.get("signatures") for k, v in res.get("checks", {}).items() if v.get("rc") == 1},
        "not_caught_by": [k for k, v in res.get("checks", {}).items() if v.get("rc") == 0],
    }
    if name in OUT_OF_SCOPE:
        meta["note"] = OUT_OF_SCOPE[name]
    old = os.path.join(d, "meta.json")
    if os.path.exists(old) and not all_checks:
        try:
            prev = json.load(open(old))
            if len(prev.get("caught_by") or []) + len(prev.get("not_caught_by") or []) > 1:
                # keep a wider matrix row recorded earlier, refresh the target check only
                prev_c = set(prev.get("caught_by") or []) - set(checks)
                meta["caught_by"] = sorted(set(meta["caught_by"] or []) | prev_c)
                meta["not_caught_by"] = sorted((set(prev.get("not_caught_by") or []) - set(checks)) | set(meta["not_caught_by"]))
                sigs = dict(prev.get("signatures") or {})
                sigs.update(meta["signatures"])
                meta["signatures"] = {k: v for k, v in sigs.items() if k in meta["caught_by"]}
        except Exception:
            pass
    json.dump(meta, open(old, "w"), indent=1)
    return meta


def table() -> None:
    rows = []
    for name in sorted(os.listdir(os.path.join(VERIF, "seeded"))):
        f = os.path.join(VERIF, "seeded", name, "meta.json")
        if os.path.exists(f):
            rows.append(json.load(open(f)))
    with open(os.path.join(VERIF, "SEEDED.md"), "w") as fh:
        fh.write("# Seeded changes and the checks that catch them\n\nGenerated by tools_seeded.py from seeded/*/meta.json. Every change compiles, passes the repository's 112 tests and fails its own demo.py.\n"
                 "`target` = the check of the property the change was written against (quick tier, seed 1).\n\n")
        fh.write("| id | property | what was changed | target check | also caught by | first signature |\n|---|---|---|---|---|---|\n")
        for m in rows:
            tgt = m["property"]
            caught = m.get("caught_by") or []
            sig = ((m.get("signatures") or {}).get(tgt) or [""])[0].replace("signature=", "")[:90].replace("|", "/")
            status = "caught" if tgt in caught else ("not by the target check: " + m["note"] if m.get("note") else "MISSED")
            fh.write(f"| {m['id']} | {tgt} | {(m.get('summary') or '')[:160].replace('|', '/')} | {status} | {', '.join(c for c in caught if c != tgt)} | {sig} |\n")
        n = len(rows)
        c = sum(1 for m in rows if m["property"] in (m.get("caught_by") or []))
        fh.write(f"\n{c} of {n} caught by their target check.\n")


def main() -> None:
    args = [a for a in sys.argv[1:] if not a.startswith("--")]
    all_checks = "--all-checks" in sys.argv
    names = args or sorted(os.listdir(os.path.join(VERIF, "seeded")))
    if "--table-only" not in sys.argv:
        with ThreadPoolExecutor(max_workers=4) as ex:
            for m in ex.map(lambda n: one(n, all_checks), names):
                print(m["id"], m.get("caught_by"), flush=True)
    table()


if __name__ == "__main__":
    main()
