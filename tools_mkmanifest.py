import json
props = {l['id']: l for l in map(json.loads, open('/verif/properties.jsonl'))}
SIM = {
 "C01": "live workers and num_running <= size at every observation point (incl. inside all user code the pool runs); is_full == (live == size) at idle",
 "C02": "every created task finishes, exactly-once end callback, num_running == live workers at idle, end-of-run capacity probe (N of N+2 probe tasks start), no foreign exception in pool tasks; plus enumerated placement sweep",
 "C03": "per-id registry state disjoint and monotone, consistent with harness events; callback order/counts; cancel(id) probe inside callbacks says AlreadyCancelled/AlreadyEnded; counter sum vs created minus forgotten at idle",
 "C04": "call log vs request (count, argument identity), tasks in returned group, completeness at end of run incl. lock()/gather_and_close() after acceptance",
 "C05": "call log equals elements in order with the right star variant, live(call) <= num_concurrent and laziness bound at every observation point, work-conserving predicate at idle",
 "C06": "reference state model per id decides allowed error set; delivery accounting: exactly the named running tasks observe one CancelledError, nobody else ever does; plus enumerated sweep",
 "C07": "after cancel_group/cancel_all: no start, call or pull for the group, group forgotten, siblings complete and observe no cancellation, capacity probe; plus enumerated sweep",
 "C08": "snapshot in the very step gather_and_close returns: all pre-call requests fully run, no live worker/callback, counters 0, until_closed released not earlier, later spawns PoolIsClosed; plus enumerated sweep",
 "C09": "before/after snapshot equality around every rejected call, error class in the applicable documented set, lock/unlock idempotence, rejected request never runs later; metamorphic twin: the same program with every request that must be rejected not made at all has the identical observable history",
 "C10": "get_group_ids(name) vs ids observed by that request's workers, one group per id, name pattern and freshness, start-group index",
 "C11": "ids dense from 0, increasing in creation/start order, one task per id, callback id == id in task name, distinct pool names",
 "C13": "at flush return: ids finished before the call are unknown to cancel(); no running / in-callback task vanishes or is disturbed; flush(True) never raises; plus enumerated sweep",
 "C14": "returned list == newest-first prefix of the model's running list; exactly those observe a cancellation",
 "C15": "read-back on unoccupied pools, enforcement after assignment, wake-up of waiters, negative values rejected without trace; occupied-pool clauses matched against the recorded open finding (D4)",
}
CTL = {
 "C12": ("sim", "differential: every program with a worker/callback fault is re-run with the fault replaced by a normal return; healthy invocations must have the identical observable history; capacity probe; flush/gather_and_close raise only an injected exception object (identity) and never with return_exceptions=True", "differential (fault-free twin run) on generated fault plans"),
 "C16": ("session", "handshake bytes == str(pool)+newline; command set reported by the parser == independently written API table (+ generated subclass members); every '<cmd> -h/--help' gives one reply with usage and parameter names; underscore members rejected", "generated pool classes x widths against an independent API table"),
 "C17": ("session", "translation validation: the same command program is run through a real ControlSession and, in a second fresh loop, by direct method calls with the meant values; replies, public state at every idle point, worker call logs and callback logs must agree", "differential (session vs directly called twin pool) over generated command programs"),
 "C18": ("session", "one write per non-blank line, session alive and usable afterwards, non-commands leave the pool snapshot unchanged and get the same reply as in a fresh session, nothing on stdout/stderr, no SystemExit, 1..3 concurrent sessions", "grammar-aware line fuzzing with metamorphic fresh-session oracle"),
 "C19": ("sockets", "lifecycle predicates over real TCP/Unix sockets and the CLI subprocess; bounded waits with a structural witness, inconclusive otherwise", "generated connect/command/disconnect/stop orders over real sockets"),
 "C20": ("queue", "exits<=entries<=puts, no ValueError from task_done, join() waiter done at idle iff puts == exited blocks at some moment since it started, final join probe; plus enumerated cancellation-placement sweep", "stateful program generation + counter model; exhaustive small-scope placement sweep"),
}
LEVEL = {"C17": "translation_validation"}
checks = []
for pid, (eng, what, tech) in CTL.items():
    checks.append({
        "property_id": pid,
        "quick_cmd": f"./check {pid} --tier quick",
        "thorough_cmd": f"./check {pid} --tier thorough",
        "evidence_file": f"evidence/{pid}.json",
        "replay_cmd_template": f"./check {pid} --replay {{path}}",
        "engine": eng,
        "level_claimed": {"category": "exploration",
                          "text": "Generated-input search against an explicit oracle: " + what + ". Decides the property on the explored set only.",
                          "design_ref": "DESIGN.md sections 3, 4 (" + pid + ")"},
        "level_note": "Trusts CPython 3.12 asyncio/argparse semantics and the harness (vt/ctl, vt/props). Absence is not established beyond the explored cases; bounds and label distribution are in the evidence file." + (" Real sockets: kernel timing is not owned, expired bounds without the structural witness are counted as inconclusive." if pid == "C19" else ""),
        "technique": "property-based testing: " + tech,
    })
for pid, what in SIM.items():
    checks.append({
        "property_id": pid,
        "quick_cmd": f"./check {pid} --tier quick",
        "thorough_cmd": f"./check {pid} --tier thorough",
        "evidence_file": f"evidence/{pid}.json",
        "replay_cmd_template": f"./check {pid} --replay {{path}}",
        "engine": "sim",
        "level_claimed": {"category": "exploration",
                          "text": "Generated-input search (Hypothesis-seeded program generator, sharded) over operation histories and schedules executed against the real library on a real asyncio loop whose every source of non-determinism is owned by the harness; oracle: " + what + ". Decides the property on the explored set only.",
                          "design_ref": "DESIGN.md sections 2, 4 (" + pid + ")"},
        "level_note": "Trusts CPython 3.12 asyncio scheduling semantics, the harness model (vt/sim) and three observation-only private peeks (loop._ready/_scheduled, key sets of the three task registries). Absence is not established beyond the explored programs; bounds and label distribution are in the evidence file.",
        "technique": "property-based testing: stateful program generation (Hypothesis) + reference model / invariants at every observation point" + ("; exhaustive small-scope placement sweep" if pid in ("C02","C06","C07","C08","C13") else ""),
    })
checks.sort(key=lambda c: c["property_id"])
m = {
 "version": 1,
 "setup_cmd": "sh setup.sh",
 "hooks": {"guard": "ASYNCIO_TASKPOOL_VERIF", "enable": "no source hooks are needed: every observation point is harness-owned code that the pool itself runs", "baseline_off_cmd": "cd /repo && /venv/bin/python -m pytest -q -p no:cacheprovider --timeout=900", "source_commits": [], "add_only": True},
 "engines": [{"name": "sim", "path": "vt/sim", "serves_properties": sorted(SIM) + ["C12"], "kind_free_text": "deterministic schedule explorer: generated programs interpreted on a real asyncio loop with harness-owned workers, callbacks, iterators and gates"},
  {"name": "session", "path": "vt/ctl", "serves_properties": ["C16", "C17", "C18"], "kind_free_text": "in-process ControlSession on a real StreamReader with a recording writer; idle detection from the sim engine"},
  {"name": "sockets", "path": "vt/props/c19.py", "serves_properties": ["C19"], "kind_free_text": "real TCP/Unix control servers, raw stream clients in the same loop, CLI client subprocess"},
  {"name": "queue", "path": "vt/props/c20.py", "serves_properties": ["C20"], "kind_free_text": "producer/consumer/cancel/join programs on asyncio_taskpool.queue_context.Queue"}],
 "checks": checks,
 "notes": "See DESIGN.md. KNOWN_FINDINGS.txt lists open and fixed findings.",
 "not_applicable": [],
}
json.dump(m, open('/verif/MANIFEST.json','w'), indent=1)
